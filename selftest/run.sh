#!/bin/bash
# usage: selftest/run.sh <property> [patch ...]
# Must-fail corpus: applies each patch to a scratch copy of /repo (outside /repo and /verif), runs the property's check
# against it, requires exit 1 with a VIOLATION line, removes the copy.
cd "$(dirname "$(readlink -f "$0")")/.."
prop=$1; shift
patches=("$@"); [ ${#patches[@]} -eq 0 ] && patches=(selftest/$prop/*.diff)
fail=0
for p in "${patches[@]}"; do
  scratch=$(mktemp -d /tmp/selftest.XXXXXX)
  git -C /repo worktree add -q --detach "$scratch/repo" HEAD 2>/dev/null || { cp -r /repo "$scratch/repo"; }
  if ! git -C "$scratch/repo" apply "$(readlink -f "$p")"; then echo "SELFTEST $prop $(basename $p): patch does not apply"; fail=1; else
    out=$(REPO="$scratch/repo" bin/govc check -root "$scratch/repo" -verif "$(pwd)" -tier quick -noevidence -failfast "$prop" 2>&1); rc=$?
    n=$(echo "$out" | grep -c '^VIOLATION')
    first=$(echo "$out" | grep '^VIOLATION' | head -1 | sed 's/.*replays\/[^/]*\///; s/\.json.*//')
    if [ $rc -eq 1 ] && [ $n -gt 0 ]; then echo "SELFTEST $prop $(basename $p): caught ($n violations, first: $first)"; else echo "SELFTEST $prop $(basename $p): MISSED (rc=$rc)"; echo "$out" | tail -3; fail=1; fi
  fi
  git -C /repo worktree remove --force "$scratch/repo" 2>/dev/null
  rm -rf "$scratch" /tmp/govc-replays-*
done
exit $fail
