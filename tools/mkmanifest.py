#!/usr/bin/env python3
# Regenerates /verif/MANIFEST.json from the per-property table below (kept in one place to stay consistent with plan.json).
import json, subprocess, os
V = os.path.dirname(os.path.dirname(os.path.abspath(__file__)))
plan = json.load(open(os.path.join(V, 'plan.json')))
TECH = "contract-based deductive verification (function contracts, loop invariants, frame conditions; VCs generated from go/ssa of the real functions, discharged by z3/cvc5)"
NOTE = "Trusted base: the VC generator govc and its memory model (integers mathematical, strings uninterpreted, slices as values, allocation model), go/ssa v0.29.0, the three SMT solvers, and the extern contracts / axioms listed in the evidence file under assumptions. No bound on inputs, no loop unrolling."
claims = {
 "C20": ("proof", "Proved for every schema and root (182 obligations, recursion by contract): on success the result is a fresh object whose flags are coherent (simple-schema = known-type or simple-array or simple-map; simple-array implies array; simple-map implies map; map/extended-object, tuple/tuple-with-extra, array/tuple mutually exclusive), also on the $ref path where all seventeen flags are copied from the classification of the expanded target (contract on inherits: exact copy) and the simple-schema flag is recomputed; for schemas without $ref the flags IsTuple, IsTupleWithExtra, IsArray, IsMap, IsExtendedObject, IsEnum equal their documented definitions and the documented complexity rules hold (object with properties, allOf, tuples complex; primitives, arrays, maps, empty objects not); no panic. Termination is NOT decided: the known non-termination on self-containing maps/arrays is listed as a known finding (F10). Transparency is relative to the dependency spec.ExpandSchema.", "DESIGN.md §7.C20"),
 "C19": ("proof", "Every obligation generated from FixEmptyDesc, FixEmptyDescs and FixEmptyResponseDescriptions against their contracts is discharged for all documents: shared, default and status-code responses under all seven methods become fixResp(old); only Response objects and status-code maps are written and each is old or fixResp(old); no panic for any non-nil document (incl. operations without responses, no paths); idempotence by lemma fixIdem.", "DESIGN.md §7.C19"),
 "C10": ("proof", "Ghost predicate synced(s) (index of s equals the index of its document; an uninterpreted function of all document and index heaps, established only by reload and destroyed by any write to those heaps). Proved for Flatten and its eleven phase functions, for all option values at once (options are symbolic): whenever Flatten returns nil, synced(opts.Spec) holds, i.e. the last mutation on every path is followed by a re-analysis. Relative to: reload establishes the index (C11-C14), and the assumed write-footprints of the rewrite primitives (replace.*, schutils.Save via InlineSchemaNamer.Name, spec.ExpandSpec: document heaps only).", "DESIGN.md §7.C10"),
 "C16": ("proof", "For New and for every exported method of *Spec (enumerated from go/types on every run, so a new method is covered without annotation) every heap write in the real body, including all inlined helpers and the recursive analyzer walk, is proved to target memory allocated during the call (1200+ frame obligations): building an analyzer and querying it never modifies the document or the index. The ten pattern/enum getters are proved to return a fresh map with exactly the entries of the internal one. Race-freedom for concurrent readers is inferred from these frames (a data race needs a write to shared memory; every query method writes only call-local fresh memory) — that inference and the internal synchronisation of dependencies (swag name cache) are a paper step, not machine-checked; goroutines, channels and sync are outside the verified subset, so a change introducing them makes the unit unverifiable and is reported.", "DESIGN.md §7.C16"),
 "C17": ("proof", "Proved for all documents (961 obligations): every keyed section helper (paths, definitions, parameters, responses, security definitions, extension maps) yields the union with the primary entry winning and exactly |dom(primary) ∩ dom(mixin)| warnings; list fields (consumes, produces, schemes, tags by name, security requirements by DeepEqual) keep the primary as a prefix, append only new elements of the mixin without duplicates, contain every mixin element, and tags/requirements emit exactly one warning per element not appended; scalar fields follow the fill-if-empty table (host, basePath, info and its parts, contact, license, externalDocs); initPrimary makes every section non-nil without touching existing ones; and Mixin as a whole never panics for any non-nil primary and non-nil mixins, with no separation assumption (aspect safety). Functional helper contracts assume the two documents do not share maps. Residual: composition across several mixins is not stated at Mixin level.", "DESIGN.md §7.C17"),
 "C18": ("proof", "Proved for all documents: pathItemOps returns exactly the non-nil operations of all seven methods, without duplicates; getOpIDs returns exactly the non-empty ids under all seven methods; mergePaths changes an id only to '<id>Mixin<N>', only for a non-empty id of an added path that was already recorded, records every resulting id, leaves id-less operations and all other operations untouched. Residual (not decided): the global pairwise-distinctness conclusion, which needs a provenance invariant over the whole mixin sequence.", "DESIGN.md §7.C18"),
}
na = {
 "C01": "whole-pipeline bisimulation through spec.ExpandSpec, jsonpointer reflection and JSON round trips; no contract within reach expresses it (DESIGN §7.C01)",
 "C02": "needs completeness of the heuristic fixpoint loops of Flatten: a protocol-level invariant over document rewriting (DESIGN §7.C02)",
 "C04": "success on a generator-defined input class W of the same heuristic pipeline; not a per-function contract (DESIGN §7.C04)",
 "C05": "the substance is the postcondition of the dependency spec.ExpandSpec; assuming it proves nothing about this repository (DESIGN §7.C05)",
 "C08": "relational property of the whole pipeline with itself; needs a functional normal-form characterisation (DESIGN §7.C08)",
}
allp = [json.loads(l)["id"] for l in open(os.path.join(V, 'properties.jsonl'))]
head = subprocess.run(['git','-C','/repo','log','--format=%h %s'],capture_output=True,text=True).stdout.splitlines()
hooks = [l.split()[0] for l in head if l.split(' ',1)[1].startswith('verif:')]
checks = []
for pid in allp:
    if pid in claims and pid in plan:
        cat, text, ref = claims[pid]
        checks.append({"property_id": pid, "quick_cmd": f"./check {pid} quick", "thorough_cmd": f"./check {pid} thorough",
          "evidence_file": f"/verif/evidence/{pid}.json", "engine": "govc", "technique": TECH,
          "level_claimed": {"category": cat, "text": text, "design_ref": ref}, "level_note": NOTE})
nal = [{"property_id": p, "reason": na.get(p, "not under contract in this revision of /verif (work in progress; see DESIGN.md §0)")} for p in allp if p not in [c["property_id"] for c in checks]]
m = {"version": 1,
 "setup_cmd": "cd /verif/govc && GOFLAGS=-mod=mod GOPROXY=off GOSUMDB=off GOTOOLCHAIN=local go build -o ../bin/govc .",
 "hooks": {"guard": "verif", "enable": "govc loads /repo with go/packages -tags verif; the only hook files are comment-only verif_contracts.go files (//go:build verif) that hold the contracts", 
   "baseline_off_cmd": "for m in . analysis_test; do (cd /repo/$m && GOFLAGS=-mod=mod GOPROXY=off go test -json -vet=off -count=1 -timeout 25m ./...); done",
   "source_commits": hooks, "add_only": True},
 "engines": [{"name": "govc", "path": "/verif/govc", "serves_properties": [c["property_id"] for c in checks],
   "kind_free_text": "contract-based deductive verifier for Go written for this task: VC generation by symbolic execution of go/ssa (naive form) of the real functions, contracts as //@ comments in /repo/**/verif_contracts.go, one SMT query per obligation raced on z3 4.8.12 / z3 5.1.0 / cvc5 1.0.3"}],
 "checks": checks, "not_applicable": nal,
 "notes": "Known findings and repaired defects: /verif/known-findings.txt. Must-fail corpus: /verif/selftest (selftest/run.sh <property>)."}
json.dump(m, open(os.path.join(V, 'MANIFEST.json'), 'w'), indent=1)
print("claimed:", [c["property_id"] for c in checks])
