#!/usr/bin/env python3
"""Generates the document-level part of the reference-index contracts (C11): analyzeOperation, analyzeOperations and
initialize under the aspect `refs` (completeness: every $ref of the places named by the property is registered under
the JSON pointer of its holder, in its category and in the all-references view).
Frames are copied from the `ops` aspect. Output replaces the block between the BEGIN/END refs-doc markers."""
import re
P = '/repo/verif_contracts.go'
src = open(P).read()

def block(func, aspect):
    lines = src.split('\n')
    i = 0
    while i < len(lines):
        if lines[i].startswith('//@ func ') and func in lines[i]:
            j = i + 1
            blk = [lines[i]]
            while j < len(lines) and lines[j].startswith('//@   '):
                blk.append(lines[j]); j += 1
            asp = 'main'
            for l in blk:
                m = re.match(r'//@   aspect (\w+)', l)
                if m: asp = m.group(1)
            if asp == aspect:
                return blk
            i = j
        else:
            i += 1
    raise SystemExit('no block %s/%s' % (func, aspect))

def frames(func, aspect='ops'):
    blk = block(func, aspect)
    mods = [l for l in blk if re.match(r'//@   modifies ', l)]
    lmods = {int(re.match(r'//@   loop (\d+):', l).group(1)): l for l in blk if re.match(r'//@   loop \d+: modifies ', l)}
    return mods, lmods

R = 's.references.'
def mono(x): return '(forall k string :: old(k in dom(%s%s)) ==> k in dom(%s%s))' % (R, x, R, x)
MONO = ' && '.join(mono(x) for x in ('schemas', 'parameters', 'responses', 'items', 'pathItems', 'allRefs'))
def present(key, m): return '%s in dom(%s%s) && %s in dom(%sallRefs)' % (key, R, m, key, R)
def schpairs(sv, prefix, name): return '(forall k string :: forall r spec.Ref :: schRef(k, r, %s, %s, %s) ==> k in dom(%sschemas) && k in dom(%sallRefs))' % (sv, prefix, name, R, R)
def itpairs(items, prefix): return '(forall k string :: forall r spec.Ref :: itRef(k, r, %s, %s, "items") ==> k in dom(%sitems) && k in dom(%sallRefs))' % (items, prefix, R, R)

OPPREF = 'slashpath.Join("/paths", jsonpointer.Escape(path), strings.ToLower(method))'
def ppath(pfx, i): return 'slashpath.Join(%s, "parameters", strconv.Itoa(%s))' % (pfx, i)

def opparam(lst, i, pfx):
    # an operation parameter: its own $ref, its items chain, its body schema
    return ('(%s[%s].Ref.String() != "" ==> %s)' % (lst, i, present('pkey(%s, %s)' % (pfx, i), 'parameters')) +
            ' && ' + itpairs('%s[%s].Items' % (lst, i), ppath(pfx, i)) +
            ' && (%s[%s].In == "body" && %s[%s].Schema != nil ==> %s)' % (lst, i, lst, i, schpairs('*%s[%s].Schema' % (lst, i), ppath(pfx, i), '"schema"')))

def plparam(lst, i, pth):
    # a path-level parameter (its schema is walked whatever its location)
    pp = 'slashpath.Join("/paths", jsonpointer.Escape(%s), "parameters", strconv.Itoa(%s))' % (pth, i)  # as the code builds it
    return ('(%s[%s].Ref.String() != "" ==> %s)' % (lst, i, present('("#" + %s)' % pp, 'parameters')) +
            ' && ' + itpairs('%s[%s].Items' % (lst, i), pp) +
            ' && (%s[%s].Schema != nil ==> %s)' % (lst, i, schpairs('*%s[%s].Schema' % (lst, i), pp, '"schema"')))

def resp(res, key):
    # a response under <prefix>/responses/<key>: own $ref and schema
    return ('(%s.Ref.String() != "" ==> %s)' % (res, present('("#" + slashpath.Join(PFX, "responses", %s))' % key, 'responses')) +
            ' && (%s.Schema != nil ==> %s)' % (res, schpairs('*%s.Schema' % res, 'slashpath.Join(PFX, "responses", %s)' % key, '"schema"')))

out = []
# ---- analyzeOperation
mods, lm = frames('(s *Spec) analyzeOperation(')
out += ['//@ func (s *Spec) analyzeOperation(method, path, op)', '//@   aspect refs',
        '//@   requires s != nil && idxMaps(s) && opsWF(s)'] + mods + [
        '//@   ensures opsWF(s)',
        '//@   ensures ' + MONO,
        '//@   ensures op != nil ==> forall i in 0..len(op.Parameters) :: ' + opparam('op.Parameters', 'i', OPPREF),
        '//@   ensures op != nil && op.Responses != nil && op.Responses.Default != nil ==> ' + resp('op.Responses.Default', '"default"').replace('PFX', OPPREF),
        '//@   ensures op != nil && op.Responses != nil ==> forall c in dom(op.Responses.StatusCodeResponses) :: ' + resp('op.Responses.StatusCodeResponses[c]', 'strconv.Itoa(c)').replace('PFX', OPPREF)]
for n in sorted(lm): out.append(lm[n])
allparams = 'forall j in 0..len(op.Parameters) :: ' + opparam('op.Parameters', 'j', 'prefix')
out += ['//@   loop 5: invariant opsWF(s) && ' + MONO,
        '//@   loop 5: invariant forall j in 0..idx :: ' + opparam('op.Parameters', 'j', 'prefix'),
        '//@   loop 6: invariant opsWF(s) && ' + MONO,
        '//@   loop 6: invariant ' + allparams,
        '//@   loop 6: invariant op.Responses.Default != nil ==> ' + resp('op.Responses.Default', '"default"').replace('PFX', 'prefix'),
        '//@   loop 6: invariant forall c in seen :: ' + resp('op.Responses.StatusCodeResponses[c]', 'strconv.Itoa(c)').replace('PFX', 'prefix'),
        '']
# ---- analyzeOperations
mods, lm = frames('(s *Spec) analyzeOperations(')
piref = 'pi.Ref.String() != "" ==> ' + present('("#" + slashpath.Join("/paths", jsonpointer.Escape(path)))', 'pathItems')
out += ['//@ func (s *Spec) analyzeOperations(path, pi)', '//@   aspect refs',
        '//@   requires s != nil && pi != nil && idxMaps(s) && opsWF(s)'] + mods + [
        '//@   ensures opsWF(s)',
        '//@   ensures ' + MONO,
        '//@   ensures ' + piref,
        '//@   ensures forall i in 0..len(pi.Parameters) :: ' + plparam('pi.Parameters', 'i', 'path')]
for n in sorted(lm): out.append(lm[n])
out += ['//@   loop 1: invariant opsWF(s) && ' + MONO,
        '//@   loop 1: invariant ' + piref,
        '//@   loop 1: invariant forall j in 0..idx :: ' + plparam('op.Parameters', 'j', 'path'),
        '']
# ---- initialize
mods, lm = frames('(s *Spec) initialize(')
P5a = 'forall p in %s :: docPaths(s)[p].Ref.String() != "" ==> ' + present('("#" + slashpath.Join("/paths", jsonpointer.Escape(p)))', 'pathItems')
P5b = 'forall p in %s :: forall i in 0..len(docPaths(s)[p].Parameters) :: ' + plparam('docPaths(s)[p].Parameters', 'i', 'p')
SPP = 'slashpath.Join("/parameters", jsonpointer.Escape(n))'
P6 = ('forall n in %s :: ' + itpairs('s.spec.Parameters[n].Items', SPP) +
      ' && (s.spec.Parameters[n].In == "body" && s.spec.Parameters[n].Schema != nil ==> ' + schpairs('*s.spec.Parameters[n].Schema', SPP, '"schema"') + ')')
SRP = 'slashpath.Join("/responses", jsonpointer.Escape(n))'
P7 = ('forall n in %s :: (forall h in dom(s.spec.Responses[n].Headers) :: ' + itpairs('s.spec.Responses[n].Headers[h].Items', 'slashpath.Join(%s, "headers", jsonpointer.Escape(h))' % SRP) + ')' +
      ' && (s.spec.Responses[n].Schema != nil ==> ' + schpairs('*s.spec.Responses[n].Schema', SRP, '"schema"') + ')')
P8 = 'forall h in seen :: ' + itpairs('response.Headers[h].Items', 'slashpath.Join(refPref, "headers", jsonpointer.Escape(h))')
P9 = 'forall n in %s :: ' + schpairs('s.spec.Definitions[n]', '"/definitions"', 'n')
D5, D6, D7, D9 = 'dom(docPaths(s))', 'dom(s.spec.Parameters)', 'dom(s.spec.Responses)', 'dom(s.spec.Definitions)'
out += ['//@ func (s *Spec) initialize()', '//@   aspect refs',
        '//@   requires s != nil && s.spec != nil && idxMaps(s) && opsWF(s)'] + mods + [
        '//@   ensures ' + P5a % D5,
        '//@   ensures ' + P5b % D5,
        '//@   ensures ' + P6 % D6,
        '//@   ensures ' + P7 % D7,
        '//@   ensures ' + P9 % D9]
for n in sorted(lm): out.append(lm[n])
P7in8 = (P7 % 'seen7').replace('forall n in seen7 :: ', 'forall n in seen7 :: n != key7 ==> ', 1)
out += ['//@   loop 5: invariant opsWF(s) && ' + MONO,
        '//@   loop 5: invariant forall p in seen :: p in dom(docPaths(s))',
        '//@   loop 5: invariant ' + P5a % 'seen',
        '//@   loop 5: invariant ' + P5b % 'seen',
        '//@   loop 6: invariant ' + MONO,
        '//@   loop 6: invariant ' + P5a % D5,
        '//@   loop 6: invariant ' + P5b % D5,
        '//@   loop 6: invariant ' + P6 % 'seen',
        '//@   loop 7: invariant ' + MONO,
        '//@   loop 7: invariant ' + P5a % D5,
        '//@   loop 7: invariant ' + P5b % D5,
        '//@   loop 7: invariant ' + P6 % D6,
        '//@   loop 7: invariant ' + P7 % 'seen7',
        '//@   loop 8: invariant ' + MONO,
        '//@   loop 8: invariant ' + P5a % D5,
        '//@   loop 8: invariant ' + P5b % D5,
        '//@   loop 8: invariant ' + P6 % D6,
        '//@   loop 8: invariant ' + P7in8,
        '//@   loop 8: invariant ' + P8,
        '//@   loop 9: invariant ' + MONO,
        '//@   loop 9: invariant ' + P5a % D5,
        '//@   loop 9: invariant ' + P5b % D5,
        '//@   loop 9: invariant ' + P6 % D6,
        '//@   loop 9: invariant ' + P7 % D7,
        '//@   loop 9: invariant ' + P9 % 'seen',
        '']
new = '// BEGIN refs-doc (generated by /verif/tools/gen_refs_doc.py)\n' + '\n'.join(out) + '\n// END refs-doc'
b = src.find('// BEGIN refs-doc'); e = src.find('// END refs-doc')
if b < 0:
    raise SystemExit('markers missing')
src = src[:b] + new + src[e + len('// END refs-doc'):]
open(P, 'w').write(src)
