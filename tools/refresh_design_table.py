#!/usr/bin/env python3
"""Rewrites the obligation counts of the table in DESIGN.md section 0 from the evidence files."""
import json,re,os
p='/verif/DESIGN.md'; s=open(p).read()
def repl(m):
    pid=m.group(1); f='/verif/evidence/%s.json'%pid
    if not os.path.exists(f): return m.group(0)
    n=json.load(open(f))['coverage']['obligations']
    return re.sub(r'\| (\d+|—) \|$', '| %d |'%n, m.group(0))
s=re.sub(r'^\| (C\d\d) \| proof.*\|$', repl, s, flags=re.M)
open(p,'w').write(s)
tot=sum(json.load(open('/verif/evidence/%s'%f))['coverage']['obligations'] for f in os.listdir('/verif/evidence') if f.endswith('.json'))
print('total obligations',tot)
