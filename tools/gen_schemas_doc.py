#!/usr/bin/env python3
"""Generates the document-level part of the schema-index contracts (C12), aspect `schemas`: every schema of the places
named by the property (body parameters: operation, path-level and shared; responses: default, status-code and shared;
definitions), at any depth, has an entry in the schema index. Frames are copied from existing aspects.
Output replaces the block between the BEGIN/END schemas-doc markers of /repo/verif_contracts.go."""
import re
P = '/repo/verif_contracts.go'
src = open(P).read()

def block(func, aspect):
    lines = src.split('\n')
    i = 0
    while i < len(lines):
        if lines[i].startswith('//@ func ') and func in lines[i]:
            j = i + 1
            blk = [lines[i]]
            while j < len(lines) and lines[j].startswith('//@   '):
                blk.append(lines[j]); j += 1
            asp = 'main'
            for l in blk:
                m = re.match(r'//@   aspect (\w+)', l)
                if m: asp = m.group(1)
            if asp == aspect:
                return blk
            i = j
        else:
            i += 1
    raise SystemExit('no block %s/%s' % (func, aspect))

def frames(func, aspect='ops'):
    blk = block(func, aspect)
    mods = [l for l in blk if re.match(r'//@   modifies ', l)]
    lmods = {int(re.match(r'//@   loop (\d+):', l).group(1)): l for l in blk if re.match(r'//@   loop \d+: modifies ', l)}
    return mods, lmods

MONO = '(forall k string :: old(k in dom(s.allSchemas)) ==> k in dom(s.allSchemas))'
def pairs(sv, prefix, name): return '(forall k string :: schAt(k, %s, %s, %s) ==> k in dom(s.allSchemas))' % (sv, prefix, name)
OPPREF = 'slashpath.Join("/paths", jsonpointer.Escape(path), strings.ToLower(method))'
def ppath(pfx, i): return 'slashpath.Join(%s, "parameters", strconv.Itoa(%s))' % (pfx, i)
def opparam(lst, i, pfx): return '(%s[%s].In == "body" && %s[%s].Schema != nil ==> %s)' % (lst, i, lst, i, pairs('*%s[%s].Schema' % (lst, i), ppath(pfx, i), '"schema"'))
def plparam(lst, i, pth):
    pp = 'slashpath.Join("/paths", jsonpointer.Escape(%s), "parameters", strconv.Itoa(%s))' % (pth, i)
    return '(%s[%s].Schema != nil ==> %s)' % (lst, i, pairs('*%s[%s].Schema' % (lst, i), pp, '"schema"'))
def resp(res, key, pfx): return '(%s.Schema != nil ==> %s)' % (res, pairs('*%s.Schema' % res, 'slashpath.Join(%s, "responses", %s)' % (pfx, key), '"schema"'))

out = []
# ---- analyzeParameter / analyzeDefaultResponse / analyzeResponse
mods, _ = frames('(s *Spec) analyzeParameter(', 'patterns')
out += ['//@ func (s *Spec) analyzeParameter(prefix, i, param)', '//@   aspect schemas', '//@   requires s != nil && idxMaps(s)'] + mods + [
        '//@   ensures ' + MONO,
        '//@   ensures param.In == "body" && param.Schema != nil ==> ' + pairs('*param.Schema', 'path.Join(prefix, "parameters", strconv.Itoa(i))', '"schema"'), '']
mods, _ = frames('(s *Spec) analyzeDefaultResponse(', 'patterns')
out += ['//@ func (s *Spec) analyzeDefaultResponse(prefix, res)', '//@   aspect schemas', '//@   requires s != nil && res != nil && idxMaps(s)'] + mods + [
        '//@   ensures ' + MONO,
        '//@   ensures res.Schema != nil ==> ' + pairs('*res.Schema', 'path.Join(prefix, "responses", "default")', '"schema"'),
        '//@   loop 1: invariant ' + MONO, '']
mods, _ = frames('(s *Spec) analyzeResponse(', 'patterns')
out += ['//@ func (s *Spec) analyzeResponse(prefix, k, res)', '//@   aspect schemas', '//@   requires s != nil && idxMaps(s)'] + mods + [
        '//@   ensures forall kk string :: old(kk in dom(s.allSchemas)) ==> kk in dom(s.allSchemas)',
        '//@   ensures res.Schema != nil ==> ' + pairs('*res.Schema', 'path.Join(prefix, "responses", strconv.Itoa(k))', '"schema"').replace('forall k string :: schAt(k,', 'forall kk string :: schAt(kk,').replace('==> k in dom', '==> kk in dom'),
        '//@   loop 1: invariant forall kk string :: old(kk in dom(s.allSchemas)) ==> kk in dom(s.allSchemas)', '']
# ---- analyzeOperation
mods, lm = frames('(s *Spec) analyzeOperation(')
out += ['//@ func (s *Spec) analyzeOperation(method, path, op)', '//@   aspect schemas',
        '//@   requires s != nil && idxMaps(s) && opsWF(s)'] + mods + [
        '//@   ensures opsWF(s)', '//@   ensures ' + MONO,
        '//@   ensures op != nil ==> forall i in 0..len(op.Parameters) :: ' + opparam('op.Parameters', 'i', OPPREF),
        '//@   ensures op != nil && op.Responses != nil && op.Responses.Default != nil ==> ' + resp('op.Responses.Default', '"default"', OPPREF),
        '//@   ensures op != nil && op.Responses != nil ==> forall c in dom(op.Responses.StatusCodeResponses) :: ' + resp('op.Responses.StatusCodeResponses[c]', 'strconv.Itoa(c)', OPPREF)]
for n in sorted(lm): out.append(lm[n])
out += ['//@   loop 5: invariant opsWF(s) && ' + MONO,
        '//@   loop 5: invariant forall j in 0..idx :: ' + opparam('op.Parameters', 'j', 'prefix'),
        '//@   loop 6: invariant opsWF(s) && ' + MONO,
        '//@   loop 6: invariant forall j in 0..len(op.Parameters) :: ' + opparam('op.Parameters', 'j', 'prefix'),
        '//@   loop 6: invariant op.Responses.Default != nil ==> ' + resp('op.Responses.Default', '"default"', 'prefix'),
        '//@   loop 6: invariant forall c in seen :: ' + resp('op.Responses.StatusCodeResponses[c]', 'strconv.Itoa(c)', 'prefix'), '']
# ---- analyzeOperations
mods, lm = frames('(s *Spec) analyzeOperations(')
out += ['//@ func (s *Spec) analyzeOperations(path, pi)', '//@   aspect schemas',
        '//@   requires s != nil && pi != nil && idxMaps(s) && opsWF(s)'] + mods + [
        '//@   ensures opsWF(s)', '//@   ensures ' + MONO,
        '//@   ensures forall i in 0..len(pi.Parameters) :: ' + plparam('pi.Parameters', 'i', 'path')]
for n in sorted(lm): out.append(lm[n])
out += ['//@   loop 1: invariant opsWF(s) && ' + MONO,
        '//@   loop 1: invariant forall j in 0..idx :: ' + plparam('op.Parameters', 'j', 'path'), '']
# ---- initialize
mods, lm = frames('(s *Spec) initialize(')
P5 = 'forall p in %s :: forall i in 0..len(docPaths(s)[p].Parameters) :: ' + plparam('docPaths(s)[p].Parameters', 'i', 'p')
SPP = 'slashpath.Join("/parameters", jsonpointer.Escape(n))'
P6 = 'forall n in %s :: (s.spec.Parameters[n].In == "body" && s.spec.Parameters[n].Schema != nil ==> ' + pairs('*s.spec.Parameters[n].Schema', SPP, '"schema"') + ')'
SRP = 'slashpath.Join("/responses", jsonpointer.Escape(n))'
P7 = 'forall n in %s :: (s.spec.Responses[n].Schema != nil ==> ' + pairs('*s.spec.Responses[n].Schema', SRP, '"schema"') + ')'
P9 = 'forall n in %s :: ' + pairs('s.spec.Definitions[n]', '"/definitions"', 'n')
D5, D6, D7, D9 = 'dom(docPaths(s))', 'dom(s.spec.Parameters)', 'dom(s.spec.Responses)', 'dom(s.spec.Definitions)'
out += ['//@ func (s *Spec) initialize()', '//@   aspect schemas',
        '//@   requires s != nil && s.spec != nil && idxMaps(s) && opsWF(s)'] + mods + [
        '//@   ensures ' + P5 % D5, '//@   ensures ' + P6 % D6, '//@   ensures ' + P7 % D7, '//@   ensures ' + P9 % D9]
for n in sorted(lm): out.append(lm[n])
P7in8 = (P7 % 'seen7').replace('forall n in seen7 :: ', 'forall n in seen7 :: n != key7 ==> ', 1)
out += ['//@   loop 5: invariant opsWF(s) && ' + MONO,
        '//@   loop 5: invariant forall p in seen :: p in dom(docPaths(s))',
        '//@   loop 5: invariant ' + P5 % 'seen',
        '//@   loop 6: invariant ' + MONO, '//@   loop 6: invariant ' + P5 % D5, '//@   loop 6: invariant ' + P6 % 'seen',
        '//@   loop 7: invariant ' + MONO, '//@   loop 7: invariant ' + P5 % D5, '//@   loop 7: invariant ' + P6 % D6, '//@   loop 7: invariant ' + P7 % 'seen7',
        '//@   loop 8: invariant ' + MONO, '//@   loop 8: invariant ' + P5 % D5, '//@   loop 8: invariant ' + P6 % D6, '//@   loop 8: invariant ' + P7in8,
        '//@   loop 9: invariant ' + MONO, '//@   loop 9: invariant ' + P5 % D5, '//@   loop 9: invariant ' + P6 % D6, '//@   loop 9: invariant ' + P7 % D7, '//@   loop 9: invariant ' + P9 % 'seen', '']
new = '// BEGIN schemas-doc (generated by /verif/tools/gen_schemas_doc.py)\n' + '\n'.join(out) + '\n// END schemas-doc'
b = src.find('// BEGIN schemas-doc'); e = src.find('// END schemas-doc')
if b < 0:
    raise SystemExit('markers missing')
src = src[:b] + new + src[e + len('// END schemas-doc'):]
open(P, 'w').write(src)
