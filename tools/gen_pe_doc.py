#!/usr/bin/env python3
"""Generates the document-level part of the pattern / enum contracts (C13): analyzeOperation, analyzeOperations and
initialize under the aspects `patterns` and `enums` (written once, derived for enums).
Frames (modifies / loop modifies) are copied from the `ops` aspect of the same functions in /repo/verif_contracts.go.
The output replaces the block between the BEGIN/END pe-doc markers of that file."""
import re, sys
P = '/repo/verif_contracts.go'
src = open(P).read()

def block(func, aspect):
    lines = src.split('\n')
    i = 0
    while i < len(lines):
        if lines[i].startswith('//@ func ') and func in lines[i]:
            j = i + 1
            blk = [lines[i]]
            while j < len(lines) and lines[j].startswith('//@   '):
                blk.append(lines[j]); j += 1
            asp = 'main'
            for l in blk:
                m = re.match(r'//@   aspect (\w+)', l)
                if m: asp = m.group(1)
            if asp == aspect:
                return blk
            i = j
        else:
            i += 1
    raise SystemExit('no block %s/%s' % (func, aspect))

def frames(func, aspect='ops'):
    blk = block(func, aspect)
    mods = [l for l in blk if re.match(r'//@   modifies ', l)]
    lmods = {int(re.match(r'//@   loop (\d+):', l).group(1)): l for l in blk if re.match(r'//@   loop \d+: modifies ', l)}
    return mods, lmods

def mono(x): return '(forall k string :: old(k in dom(s.MAPS.%s)) ==> k in dom(s.MAPS.%s))' % (x, x)
MONO = ' && '.join(mono(x) for x in ('parameters', 'headers', 'items', 'schemas', 'ALL'))

OPPREF = 'slashpath.Join("/paths", jsonpointer.Escape(path), strings.ToLower(method))'
PLKEY = '("#" + slashpath.Join("/paths", jsonpointer.Escape(path), "parameters", strconv.Itoa(%s)))'
SPKEY = '("#" + slashpath.Join("/parameters", jsonpointer.Escape(%s)))'
SRPREF = 'slashpath.Join("/responses", jsonpointer.Escape(%s))'
DEFKEY = '("#" + path.Join("/definitions", jsonpointer.Escape(%s)))'

def present(key, m): return '%s in dom(s.MAPS.%s) && %s in dom(s.MAPS.ALL)' % (key, m, key)

def gen_one():
    out = []
    # ---- analyzeOperation
    mods, lm = frames('(s *Spec) analyzeOperation(')
    opfact = lambda i, lst: 'NONEMPTY(%s[%s].FIELD) ==> %s' % (lst, i, present('pkey(%s, %s)' % ('PFX', i), 'parameters'))
    out += ['//@ func (s *Spec) analyzeOperation(method, path, op)', '//@   aspect ASPECT',
            '//@   requires s != nil && idxMaps(s) && opsWF(s)'] + mods + [
            '//@   ensures opsWF(s)',
            '//@   ensures ' + MONO,
            '//@   ensures op != nil ==> forall i in 0..len(op.Parameters) :: ' + opfact('i', 'op.Parameters').replace('PFX', OPPREF)]
    for n in sorted(lm): out.append(lm[n])
    out += ['//@   loop 5: invariant opsWF(s) && ' + MONO,
            '//@   loop 5: invariant forall j in 0..idx :: ' + opfact('j', 'op.Parameters').replace('PFX', 'prefix'),
            '//@   loop 6: invariant opsWF(s) && ' + MONO,
            '//@   loop 6: invariant forall j in 0..len(op.Parameters) :: ' + opfact('j', 'op.Parameters').replace('PFX', 'prefix'),
            '']
    # ---- analyzeOperations
    mods, lm = frames('(s *Spec) analyzeOperations(')
    plfact = lambda i, lst: 'NONEMPTY(%s[%s].FIELD) ==> %s' % (lst, i, present(PLKEY % i, 'parameters'))
    out += ['// path-level parameters (analyzeOperations); shared parameters, shared response headers and definitions (initialize)',
            '//@ func (s *Spec) analyzeOperations(path, pi)', '//@   aspect ASPECT',
            '//@   requires s != nil && pi != nil && idxMaps(s) && opsWF(s)'] + mods + [
            '//@   ensures opsWF(s)',
            '//@   ensures ' + MONO,
            '//@   ensures forall i in 0..len(pi.Parameters) :: ' + plfact('i', 'pi.Parameters')]
    for n in sorted(lm): out.append(lm[n])
    out += ['//@   loop 1: invariant opsWF(s) && ' + MONO,
            '//@   loop 1: invariant forall j in 0..idx :: ' + plfact('j', 'op.Parameters'),
            '']
    # ---- initialize
    mods, lm = frames('(s *Spec) initialize(')
    P6 = 'forall n in %s :: NONEMPTY(s.spec.Parameters[n].FIELD) ==> ' + present(SPKEY % 'n', 'parameters')
    P6i = 'forall n in %s :: forall k string :: forall p VT :: itKIND(k, p, s.spec.Parameters[n].Items, slashpath.Join("/parameters", jsonpointer.Escape(n)), "items") ==> k in dom(s.MAPS.items) && k in dom(s.MAPS.ALL)'
    P7 = 'forall n in %s :: forall h in dom(s.spec.Responses[n].Headers) :: NONEMPTY(s.spec.Responses[n].Headers[h].FIELD) ==> ' + present('hkey(%s, h)' % (SRPREF % 'n'), 'headers')
    P8 = 'forall h in seen :: NONEMPTY(response.Headers[h].FIELD) ==> ' + present('hkey(refPref, h)', 'headers')
    P9 = 'forall n in %s :: NONEMPTY(s.spec.Definitions[n].FIELD) ==> ' + present(DEFKEY % 'n', 'schemas')
    P5 = 'forall p in %s :: forall i in 0..len(docPaths(s)[p].Parameters) :: NONEMPTY(docPaths(s)[p].Parameters[i].FIELD) ==> ' + present('("#" + slashpath.Join("/paths", jsonpointer.Escape(p), "parameters", strconv.Itoa(i)))', 'parameters')
    D5, D6, D7, D9 = 'dom(docPaths(s))', 'dom(s.spec.Parameters)', 'dom(s.spec.Responses)', 'dom(s.spec.Definitions)'
    out += ['//@ func (s *Spec) initialize()', '//@   aspect ASPECT',
            '//@   requires s != nil && s.spec != nil && idxMaps(s) && opsWF(s)'] + mods + [
            '//@   ensures ' + P5 % D5,
            '//@   ensures ' + P6 % D6,
            '//@   ensures ' + P6i % D6,
            '//@   ensures ' + P7 % D7,
            '//@   ensures ' + P9 % D9]
    for n in sorted(lm): out.append(lm[n])
    S = 'seen'
    out += ['//@   loop 5: invariant opsWF(s) && ' + MONO,
            '//@   loop 5: invariant forall p in seen :: p in dom(docPaths(s))',
            '//@   loop 5: invariant ' + P5 % S,
            '//@   loop 6: invariant ' + MONO,
            '//@   loop 6: invariant ' + P5 % D5,
            '//@   loop 6: invariant ' + P6 % S,
            '//@   loop 6: invariant ' + P6i % S,
            '//@   loop 7: invariant ' + MONO,
            '//@   loop 7: invariant ' + P5 % D5,
            '//@   loop 7: invariant ' + P6 % D6,
            '//@   loop 7: invariant ' + P6i % D6,
            '//@   loop 7: invariant ' + P7 % 'seen7',
            '//@   loop 8: invariant ' + MONO,
            '//@   loop 8: invariant ' + P5 % D5,
            '//@   loop 8: invariant ' + P6 % D6,
            '//@   loop 8: invariant ' + P6i % D6,
            '//@   loop 8: invariant ' + (P7 % 'seen7').replace('forall n in seen7 :: ', 'forall n in seen7 :: n != key7 ==> ', 1),
            '//@   loop 8: invariant ' + P8,
            '//@   loop 9: invariant ' + MONO,
            '//@   loop 9: invariant ' + P5 % D5,
            '//@   loop 9: invariant ' + P6 % D6,
            '//@   loop 9: invariant ' + P6i % D6,
            '//@   loop 9: invariant ' + P7 % D7,
            '//@   loop 9: invariant ' + P9 % S,
            '']
    return '\n'.join(out)

def gen(kind):
    t = gen_one()
    if kind == 'Pat':
        sub = {'KIND': 'Pat', 'VT': 'string', 'FIELD': 'Pattern', 'MAPS': 'patterns', 'ALL': 'allPatterns', 'ASPECT': 'patterns'}
        nonempty = lambda x: '%s != ""' % x
    else:
        sub = {'KIND': 'Enum', 'VT': '[]any', 'FIELD': 'Enum', 'MAPS': 'enums', 'ALL': 'allEnums', 'ASPECT': 'enums'}
        nonempty = lambda x: 'len(%s) > 0' % x
    t = re.sub(r'NONEMPTY\(([^()]*(?:\([^()]*\))?[^()]*)\)', lambda m: nonempty(m.group(1)), t)
    for k, v in sub.items():
        t = t.replace(k, v)
    return t

new = '// BEGIN pe-doc (generated by /verif/tools/gen_pe_doc.py)\n' + gen('Pat') + '\n' + gen('Enum') + '\n// END pe-doc'
b = src.find('// BEGIN pe-doc'); e = src.find('// END pe-doc')
if b < 0:
    raise SystemExit('markers missing')
src = src[:b] + new + src[e + len('// END pe-doc'):]
open(P, 'w').write(src)
