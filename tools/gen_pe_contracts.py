#!/usr/bin/env python3
# Generates the pattern/enum (aspect pe) contracts of the analyzer walk: written once for patterns, derived for enums.
import re, sys
PAT = r'''
//@ fun pkey(prefix string, i int) string = "#" + path.Join(prefix, "parameters", strconv.Itoa(i))
//@ fun hkey(refPref string, h string) string = "#" + path.Join(refPref, "headers", jsonpointer.Escape(h))

// the items chain under an owner: every (key, KIND) pair it declares
//@ fun itKIND(k string, p VT, items *spec.Items, prefix string, name string) bool = items != nil && ((k == "#" + path.Join(prefix, name) && p == items.FIELD && NONEMPTY(p)) || itKIND(k, p, items.Items, path.Join(prefix, name), name))

//@ func (s *Spec) analyzeItems(name, items, prefix, location)
//@   aspect ASPECT
//@   requires s != nil && idxMaps(s)
//@   modifies map s.references.items, map s.references.headerItems, map s.references.parameterItems, map s.references.allRefs, map s.patterns.items, map s.patterns.allPatterns, map s.enums.items, map s.enums.allEnums
//@   ensures forall k in dom(s.MAPS.items) :: (old(k in dom(s.MAPS.items)) && s.MAPS.items[k] == old(s.MAPS.items[k])) || itKIND(k, s.MAPS.items[k], items, prefix, name)
//@   ensures forall k string :: forall p VT :: itKIND(k, p, items, prefix, name) ==> k in dom(s.MAPS.items) && k in dom(s.MAPS.ALL)
//@   ensures forall k string :: old(k in dom(s.MAPS.items)) ==> k in dom(s.MAPS.items)
//@   ensures forall k string :: old(k in dom(s.MAPS.ALL)) ==> k in dom(s.MAPS.ALL)

//@ func (s *Spec) analyzeSchema(name, schema, prefix)
//@   aspect ASPECT
//@   requires s != nil && schema != nil && idxMaps(s)
//@   modifies map s.allSchemas, map s.allOfs, map s.references.schemas, map s.references.allRefs, map s.patterns.schemas, map s.patterns.allPatterns, map s.enums.schemas, map s.enums.allEnums
//@   ensures NONEMPTY(schema.FIELD) ==> ("#" + path.Join(prefix, jsonpointer.Escape(name))) in dom(s.MAPS.schemas) && ("#" + path.Join(prefix, jsonpointer.Escape(name))) in dom(s.MAPS.ALL)
//@   ensures forall k string :: old(k in dom(s.MAPS.schemas)) ==> k in dom(s.MAPS.schemas)
//@   ensures forall k string :: old(k in dom(s.MAPS.ALL)) ==> k in dom(s.MAPS.ALL)
//@   loop 1: invariant forall k string :: old(k in dom(s.MAPS.schemas)) ==> k in dom(s.MAPS.schemas)
//@   loop 1: invariant forall k string :: old(k in dom(s.MAPS.ALL)) ==> k in dom(s.MAPS.ALL)
//@   loop 1: invariant NONEMPTY(schema.FIELD) ==> ("#" + path.Join(prefix, jsonpointer.Escape(name))) in dom(s.MAPS.schemas) && ("#" + path.Join(prefix, jsonpointer.Escape(name))) in dom(s.MAPS.ALL)
LOOPS_SCHEMA

//@ func (s *Spec) analyzeParameter(prefix, i, param)
//@   aspect ASPECT
//@   requires s != nil && idxMaps(s)
//@   modifies map s.references.parameters, map s.references.allRefs, map s.patterns.parameters, map s.patterns.allPatterns, map s.enums.parameters, map s.enums.allEnums, map s.references.items, map s.references.headerItems, map s.references.parameterItems, map s.patterns.items, map s.enums.items, map s.allSchemas, map s.allOfs, map s.references.schemas, map s.patterns.schemas, map s.enums.schemas
//@   ensures NONEMPTY(param.FIELD) ==> pkey(prefix, i) in dom(s.MAPS.parameters) && s.MAPS.parameters[pkey(prefix, i)] == param.FIELD && pkey(prefix, i) in dom(s.MAPS.ALL)
//@   ensures forall k in dom(s.MAPS.parameters) :: (old(k in dom(s.MAPS.parameters)) && s.MAPS.parameters[k] == old(s.MAPS.parameters[k])) || (k == pkey(prefix, i) && NONEMPTY(param.FIELD) && s.MAPS.parameters[k] == param.FIELD)
//@   ensures forall k string :: old(k in dom(s.MAPS.parameters)) ==> k in dom(s.MAPS.parameters)
//@   ensures forall k string :: old(k in dom(s.MAPS.ALL)) ==> k in dom(s.MAPS.ALL)
//@   ensures (forall k string :: old(k in dom(s.MAPS.items)) ==> k in dom(s.MAPS.items)) && (forall k string :: old(k in dom(s.MAPS.schemas)) ==> k in dom(s.MAPS.schemas))
//@   ensures forall k string :: forall p VT :: itKIND(k, p, param.Items, path.Join(prefix, "parameters", strconv.Itoa(i)), "items") ==> k in dom(s.MAPS.items) && k in dom(s.MAPS.ALL)

// a response (default or status code) registers the KINDs of its headers under <response pointer>/headers/<name>
//@ fun hdrKIND(k string, p VT, res spec.Response, refPref string) bool = exists h in dom(res.Headers) :: k == hkey(refPref, h) && p == res.Headers[h].FIELD && NONEMPTY(p)

//@ func (s *Spec) analyzeDefaultResponse(prefix, res)
//@   aspect ASPECT
//@   requires s != nil && res != nil && idxMaps(s)
//@   modifies map s.references.responses, map s.references.allRefs, map s.patterns.headers, map s.patterns.allPatterns, map s.enums.headers, map s.enums.allEnums, map s.references.items, map s.references.headerItems, map s.references.parameterItems, map s.patterns.items, map s.enums.items, map s.allSchemas, map s.allOfs, map s.references.schemas, map s.patterns.schemas, map s.enums.schemas
//@   ensures forall h in dom(res.Headers) :: NONEMPTY(res.Headers[h].FIELD) ==> hkey(path.Join(prefix, "responses", "default"), h) in dom(s.MAPS.headers) && hkey(path.Join(prefix, "responses", "default"), h) in dom(s.MAPS.ALL)
//@   ensures forall k in dom(s.MAPS.headers) :: (old(k in dom(s.MAPS.headers)) && s.MAPS.headers[k] == old(s.MAPS.headers[k])) || hdrKIND(k, s.MAPS.headers[k], *res, path.Join(prefix, "responses", "default"))
//@   ensures forall k string :: old(k in dom(s.MAPS.headers)) ==> k in dom(s.MAPS.headers)
//@   ensures forall k string :: old(k in dom(s.MAPS.ALL)) ==> k in dom(s.MAPS.ALL)
//@   ensures (forall k string :: old(k in dom(s.MAPS.items)) ==> k in dom(s.MAPS.items)) && (forall k string :: old(k in dom(s.MAPS.schemas)) ==> k in dom(s.MAPS.schemas))
//@   loop 1: invariant (forall k string :: old(k in dom(s.MAPS.items)) ==> k in dom(s.MAPS.items)) && (forall k string :: old(k in dom(s.MAPS.schemas)) ==> k in dom(s.MAPS.schemas))
//@   loop 1: invariant forall h in seen :: NONEMPTY(res.Headers[h].FIELD) ==> hkey(path.Join(prefix, "responses", "default"), h) in dom(s.MAPS.headers) && hkey(path.Join(prefix, "responses", "default"), h) in dom(s.MAPS.ALL)
//@   loop 1: invariant forall k in dom(s.MAPS.headers) :: (old(k in dom(s.MAPS.headers)) && s.MAPS.headers[k] == old(s.MAPS.headers[k])) || hdrKIND(k, s.MAPS.headers[k], *res, path.Join(prefix, "responses", "default"))
//@   loop 1: invariant forall k string :: old(k in dom(s.MAPS.headers)) ==> k in dom(s.MAPS.headers)
//@   loop 1: invariant forall k string :: old(k in dom(s.MAPS.ALL)) ==> k in dom(s.MAPS.ALL)

//@ func (s *Spec) analyzeResponse(prefix, k, res)
//@   aspect ASPECT
//@   requires s != nil && idxMaps(s)
//@   modifies map s.references.responses, map s.references.allRefs, map s.patterns.headers, map s.patterns.allPatterns, map s.enums.headers, map s.enums.allEnums, map s.references.items, map s.references.headerItems, map s.references.parameterItems, map s.patterns.items, map s.enums.items, map s.allSchemas, map s.allOfs, map s.references.schemas, map s.patterns.schemas, map s.enums.schemas
//@   ensures forall h in dom(res.Headers) :: NONEMPTY(res.Headers[h].FIELD) ==> hkey(path.Join(prefix, "responses", strconv.Itoa(k)), h) in dom(s.MAPS.headers) && hkey(path.Join(prefix, "responses", strconv.Itoa(k)), h) in dom(s.MAPS.ALL)
//@   ensures forall kk in dom(s.MAPS.headers) :: (old(kk in dom(s.MAPS.headers)) && s.MAPS.headers[kk] == old(s.MAPS.headers[kk])) || hdrKIND(kk, s.MAPS.headers[kk], res, path.Join(prefix, "responses", strconv.Itoa(k)))
//@   ensures forall kk string :: old(kk in dom(s.MAPS.headers)) ==> kk in dom(s.MAPS.headers)
//@   ensures forall kk string :: old(kk in dom(s.MAPS.ALL)) ==> kk in dom(s.MAPS.ALL)
//@   ensures (forall kk string :: old(kk in dom(s.MAPS.items)) ==> kk in dom(s.MAPS.items)) && (forall kk string :: old(kk in dom(s.MAPS.schemas)) ==> kk in dom(s.MAPS.schemas))
//@   loop 1: invariant (forall kk string :: old(kk in dom(s.MAPS.items)) ==> kk in dom(s.MAPS.items)) && (forall kk string :: old(kk in dom(s.MAPS.schemas)) ==> kk in dom(s.MAPS.schemas))
//@   loop 1: invariant forall h in seen :: NONEMPTY(res.Headers[h].FIELD) ==> hkey(path.Join(prefix, "responses", strconv.Itoa(k)), h) in dom(s.MAPS.headers) && hkey(path.Join(prefix, "responses", strconv.Itoa(k)), h) in dom(s.MAPS.ALL)
//@   loop 1: invariant forall kk in dom(s.MAPS.headers) :: (old(kk in dom(s.MAPS.headers)) && s.MAPS.headers[kk] == old(s.MAPS.headers[kk])) || hdrKIND(kk, s.MAPS.headers[kk], res, path.Join(prefix, "responses", strconv.Itoa(k)))
//@   loop 1: invariant forall kk string :: old(kk in dom(s.MAPS.headers)) ==> kk in dom(s.MAPS.headers)
//@   loop 1: invariant forall kk string :: old(kk in dom(s.MAPS.ALL)) ==> kk in dom(s.MAPS.ALL)
'''
EXTRA = r'''
'''
def gen(kind):
    t = PAT + EXTRA
    if kind == 'Pat':
        sub = {'KIND':'Pat','VT':'string','FIELD':'Pattern','MAPS':'patterns','ALL':'allPatterns','ASPECT':'patterns'}
        nonempty = lambda x: f'{x} != ""'
    elif kind == 'Enum':
        sub = {'KIND':'Enum','VT':'[]any','FIELD':'Enum','MAPS':'enums','ALL':'allEnums','ASPECT':'enums'}
        nonempty = lambda x: f'len({x}) > 0'
    else:
        sub = {'KIND':'Ref','VT':'spec.Ref','FIELD':'Ref','MAPS':'references','ALL':'allRefs','ASPECT':'refs'}
        nonempty = lambda x: f'{x}.String() != ""'
        # only the items chain and operation parameters follow the same shape for $refs
        keep = []
        blocks = t.split('\n\n')
        for b in blocks:
            if 'fun itKIND' in b or 'analyzeItems(' in b or 'analyzeParameter(' in b:
                keep.append(b)
        t = '\n\n'.join(keep) + '\n'
    # the 9 further loops of analyzeSchema need the same three invariants
    inv = [l for l in t.splitlines() if l.startswith('//@   loop 1: invariant') and 'schemas' in l and 'analyzeSchema' not in l][:0]
    lines = t.split('LOOPS_SCHEMA')[0].splitlines()
    base = [l for l in lines if l.startswith('//@   loop 1: invariant')][-3:]
    loops = []
    for n in range(2, 8):
        loops += [l.replace('loop 1:', f'loop {n}:') for l in base]
    t = t.replace('LOOPS_SCHEMA', '\n'.join(loops))
    t = re.sub(r'NONEMPTY\(([^()]*(?:\([^()]*\))?[^()]*)\)', lambda m: nonempty(m.group(1)), t)
    for k, v in sub.items():
        t = t.replace(k, v)
    if kind != 'Pat':
        # helper key functions are shared
        t = '\n'.join(l for l in t.splitlines() if not l.startswith('//@ fun pkey') and not l.startswith('//@ fun hkey'))
    return t
sys.stdout.write("\n// ---------------------------------------------------------------- analyzer.go: pattern and enum indexes (C13)\n// generated by /verif/tools/gen_pe_contracts.py (patterns written once, enums derived)\n")
sys.stdout.write(gen('Pat'))
sys.stdout.write(gen('Enum'))
if len(sys.argv) > 1 and sys.argv[1] == 'refs':
    sys.stdout.write(gen('Ref'))
