package analysis

// F8 (C06, C09): RemoveUnused compares definition names with rendered $ref strings through two different escapings.
//  (a) a USED definition whose name needs URL escaping ("a b") is deleted: the $ref renders as #/definitions/a%20b;
//  (b) an UNUSED definition whose name needs JSON-pointer escaping ("a/b") is never deleted (delete by path.Base of
//      the escaped key), so the removal loop never ends.

import (
	"encoding/json"
	"testing"
	"time"

	"github.com/go-openapi/spec"
)

func TestFinding_F8a_RemoveUnusedDeletesUsedDefinition(t *testing.T) {
	var sw spec.Swagger
	doc := `{"swagger":"2.0","info":{"title":"t","version":"1"},"paths":{"/p":{"get":{"responses":{"200":{"description":"ok","schema":{"$ref":"#/definitions/a%20b"}}}}}},
	 "definitions":{"a b":{"type":"object","properties":{"x":{"type":"string"}}}}}`
	if err := json.Unmarshal([]byte(doc), &sw); err != nil {
		t.Fatal(err)
	}
	if err := Flatten(FlattenOpts{Spec: New(&sw), BasePath: "/tmp/doc.json", Minimal: true, RemoveUnused: true}); err != nil {
		t.Fatalf("flatten: %v", err)
	}
	if _, ok := sw.Definitions["a b"]; !ok {
		t.Fatalf("the referenced definition %q was removed as unused; definitions left: %d", "a b", len(sw.Definitions))
	}
}

func TestFinding_F8b_RemoveUnusedNeverTerminates(t *testing.T) {
	var sw spec.Swagger
	doc := `{"swagger":"2.0","info":{"title":"t","version":"1"},"paths":{},"definitions":{"a/b":{"type":"string"}}}`
	if err := json.Unmarshal([]byte(doc), &sw); err != nil {
		t.Fatal(err)
	}
	done := make(chan error, 1)
	go func() { done <- Flatten(FlattenOpts{Spec: New(&sw), BasePath: "/tmp/doc.json", Minimal: true, RemoveUnused: true}) }()
	select {
	case err := <-done:
		if err != nil {
			t.Fatalf("flatten: %v", err)
		}
		if _, ok := sw.Definitions["a/b"]; ok {
			t.Fatalf("unused definition %q is still present", "a/b")
		}
	case <-time.After(3 * time.Second):
		t.Fatalf("Flatten(RemoveUnused) did not return within 3s on an unused definition named %q", "a/b")
	}
}
