package analysis

import (
	"encoding/json"
	"sort"
	"testing"

	"github.com/go-openapi/jsonpointer"
	"github.com/go-openapi/spec"
)

// Violation 1 of C13: response-header names are not JSON-pointer-escaped.
//
// Broken sentence: "... is reported under the JSON pointer of its owner in the matching category and in
// the 'all' view, and nothing else is reported."
//
// Input is inside the quantifier: a loadable document with a pattern and an enum planted on a response header
// (shared response, default response, status-code response) and on that header's items. The header is named
// "X~1Y": '~' and digits are legal HTTP header-name (token) characters, and any string is a legal JSON key.
//
// Cause: analyzer.go builds the header key with slashpath.Join(refPref, "headers", k) using the raw map key k
// (lines 244, 390, 413), whereas every other keyed owner (definitions, properties, shared parameter/response
// names, paths) goes through jsonpointer.Escape. The pointer of header "X~1Y" is ".../headers/X~01Y"; the
// analyzer reports ".../headers/X~1Y", which is the pointer of a (non-existent) header named "X/Y". Header
// names containing '/' are likewise reported as two pointer tokens, and can collide in the 'all' view with the
// items of another header (header "a/items" vs. items of header "a").
func TestViolation1_HeaderNameNotEscaped(t *testing.T) {
	const hdr = `{"X~1Y":{"type":"array","pattern":"hp","enum":[["he"]],"items":{"type":"string","pattern":"ip","enum":["ie"]}}}`
	doc := `{"swagger":"2.0","info":{"title":"t","version":"1"},
	 "responses":{"r":{"description":"d","headers":` + hdr + `}},
	 "paths":{"/x":{"get":{"responses":{
	    "default":{"description":"d","headers":` + hdr + `},
	    "200":{"description":"d","headers":` + hdr + `}}}}}}`
	var sw spec.Swagger
	if err := json.Unmarshal([]byte(doc), &sw); err != nil {
		t.Fatalf("document must load: %v", err)
	}
	an := New(&sw)

	for _, owner := range []string{
		"#/responses/r/headers/X~01Y",
		"#/paths/~1x/get/responses/default/headers/X~01Y",
		"#/paths/~1x/get/responses/200/headers/X~01Y",
	} {
		// sanity: this really is the pointer of the owner
		ptr, err := jsonpointer.New(owner[1:])
		if err != nil {
			t.Fatal(err)
		}
		v, _, err := ptr.Get(&sw)
		if err != nil {
			t.Fatalf("%s should resolve: %v", owner, err)
		}
		if h, ok := v.(spec.Header); !ok || h.Pattern != "hp" {
			t.Fatalf("%s should resolve to the header, got %T", owner, v)
		}

		if got := an.HeaderPatterns()[owner]; got != "hp" {
			t.Errorf("HeaderPatterns[%s] = %q, want %q", owner, got, "hp")
		}
		if got := an.AllPatterns()[owner]; got != "hp" {
			t.Errorf("AllPatterns[%s] = %q, want %q", owner, got, "hp")
		}
		if got := an.HeaderEnums()[owner]; len(got) != 1 {
			t.Errorf("HeaderEnums[%s] = %v, want [[he]]", owner, got)
		}
		if got := an.ItemsPatterns()[owner+"/items"]; got != "ip" {
			t.Errorf("ItemsPatterns[%s/items] = %q, want %q", owner, got, "ip")
		}
		if got := an.ItemsEnums()[owner+"/items"]; len(got) != 1 {
			t.Errorf("ItemsEnums[%s/items] = %v, want [ie]", owner, got)
		}
	}

	// "nothing else is reported": every reported key must be the pointer of something in the document
	for k := range an.AllPatterns() {
		ptr, err := jsonpointer.New(k[1:])
		if err != nil {
			t.Errorf("reported key %q is not a JSON pointer: %v", k, err)
			continue
		}
		if _, _, err := ptr.Get(&sw); err != nil {
			t.Errorf("reported key %q does not designate anything in the document: %v", k, err)
		}
	}
}

// Same cause, showing an entry lost from the 'all' view: header "a/items" (pattern "of-header") and the items of
// header "a" (pattern "of-items") are both filed under "#/.../headers/a/items" in AllPatterns.
func TestViolation1_HeaderNameCollision(t *testing.T) {
	doc := `{"swagger":"2.0","info":{"title":"t","version":"1"},"paths":{"/x":{"get":{"responses":{"200":{"description":"d","headers":{
	  "a":{"type":"array","items":{"type":"string","pattern":"of-items"}},
	  "a/items":{"type":"string","pattern":"of-header"}}}}}}}}`
	var sw spec.Swagger
	if err := json.Unmarshal([]byte(doc), &sw); err != nil {
		t.Fatalf("document must load: %v", err)
	}
	an := New(&sw)
	all := an.AllPatterns()
	if len(all) != 2 {
		t.Errorf("two patterns are declared, the 'all' view has %d: %v", len(all), all)
	}
	if got := all["#/paths/~1x/get/responses/200/headers/a/items"]; got != "of-items" {
		t.Errorf("items of header a: got %q want %q", got, "of-items")
	}
	if got := all["#/paths/~1x/get/responses/200/headers/a~1items"]; got != "of-header" {
		t.Errorf("header a/items: got %q want %q", got, "of-header")
	}
}

func TestViolation3_HeaderNameNotEscapedCollision(t *testing.T) {
	const doc = `{"swagger":"2.0","info":{"title":"t","version":"1"},"paths":{},
 "responses":{"r":{"description":"ok","headers":{
    "a":{"type":"array","items":{"type":"array","items":{"$ref":"#/definitions/x"}}},
    "a/items":{"type":"array","items":{"$ref":"#/definitions/y"}}}}},
 "definitions":{"x":{},"y":{}}}`
	var sw spec.Swagger
	if err := json.Unmarshal([]byte(doc), &sw); err != nil {
		t.Fatalf("document must be loadable: %v", err)
	}
	if len(sw.Responses["r"].Headers) != 2 {
		t.Fatalf("precondition: two headers expected")
	}
	an := New(&sw)
	got := an.AllItemsReferences()
	sort.Strings(got)
	if len(got) != 2 {
		t.Errorf("AllItemsReferences: expected [#/definitions/x #/definitions/y], got %v", got)
	}
	if all := an.AllReferences(); len(all) != 2 {
		t.Errorf("AllReferences: expected 2 refs, got %v", all)
	}
}
