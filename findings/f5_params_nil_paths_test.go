package analysis

// F5 (C15): SafeParamsFor / SafeParametersFor crash instead of returning an empty result when the document has
// no paths section, and SafeParamsFor crashes for a method the path does not define.

import (
	"encoding/json"
	"testing"

	"github.com/go-openapi/spec"
)

func mustNotPanic(t *testing.T, what string, f func()) {
	t.Helper()
	defer func() {
		if r := recover(); r != nil {
			t.Errorf("%s panicked: %v", what, r)
		}
	}()
	f()
}

func TestFinding_F5_ParamsNoOperation(t *testing.T) {
	var noPaths, onlyGet spec.Swagger
	if err := json.Unmarshal([]byte(`{"swagger":"2.0","info":{"title":"t","version":"1"}}`), &noPaths); err != nil {
		t.Fatal(err)
	}
	if err := json.Unmarshal([]byte(`{"swagger":"2.0","paths":{"/a":{"get":{"operationId":"g","responses":{"200":{"description":"ok"}}}}}}`), &onlyGet); err != nil {
		t.Fatal(err)
	}
	a1, a2 := New(&noPaths), New(&onlyGet)
	cb := func(spec.Parameter, error) bool { return true }
	mustNotPanic(t, "SafeParamsFor on a document without paths", func() {
		if r := a1.SafeParamsFor("GET", "/a", cb); len(r) != 0 {
			t.Errorf("expected empty result, got %v", r)
		}
	})
	mustNotPanic(t, "SafeParametersFor on a document without paths", func() {
		if r := a1.SafeParametersFor("x", cb); len(r) != 0 {
			t.Errorf("expected empty result, got %v", r)
		}
	})
	mustNotPanic(t, "SafeParamsFor for a method the path does not define", func() {
		if r := a2.SafeParamsFor("POST", "/a", cb); len(r) != 0 {
			t.Errorf("expected empty result, got %v", r)
		}
	})
}
