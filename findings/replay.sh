#!/bin/bash
# usage: findings/replay.sh <property-id> [quick|thorough]
# Replays, against the real code of /repo's working tree, the demonstration tests of the defects recorded as
# `fixed:` for the property in known-findings.txt (a repaired defect must not return). Each demo is a Go test injected
# with -overlay (nothing is written to /repo). A failing demo is reported as a violation with a real failing input:
#   VIOLATION property=<id> replay=<json naming the test file, the command and the output>
# Exit 0 if every demo passes, 1 otherwise.
cd "$(dirname "$(readlink -f "$0")")/.."
export GOFLAGS=-mod=mod GOPROXY=off GOSUMDB=off GOTOOLCHAIN=local
prop=$1; tier=${2:-quick}; repo=${REPO:-/repo}; rc=0
demos=$(grep "^fixed: property=$prop " known-findings.txt | grep -o 'demo findings/[A-Za-z0-9_./-]*' | sed 's/^demo //' | sort -u)
if [ "$tier" = thorough ]; then
  # thorough: also the demonstrations that came with the independently written breaking changes of this property
  # (each passes on the unchanged tree and fails when that breakage is present)
  for m in seeded/*/meta.json; do
    if grep -q "\"breaks\": \"$prop\"" "$m"; then demos="$demos $(dirname "$m")/demo_test.go"; fi
  done
fi
# open (recorded, not repaired) findings of the property: their demonstrations are expected to FAIL on the current tree;
# one that passes is only noted (the defect no longer reproduces: the finding line is stale), never an alarm
for o in $(grep "^finding: property=$prop " known-findings.txt | grep -o 'obligation=external:[A-Za-z0-9_./-]*' | sed 's/^obligation=external://'); do
  [ -f "$o" ] || continue
  if REPO=$repo timeout 300 findings/run.sh "$o" . >/dev/null 2>&1; then
    echo "NOTE: known finding no longer reproduces on this tree: $o"
  else
    echo "$prop open finding reproduces on the current tree: $o"
  fi
done
[ -z "$demos" ] && exit 0
n=0; failed=0
for d in $demos; do
  [ -f "$d" ] || continue
  n=$((n+1))
  pkg=$(grep -m1 '^package ' "$d" | awk '{print $2}')
  case $pkg in
    analysis) dir=. ;;
    replace|sortref|operations|schutils|normalize) dir=internal/flatten/$pkg ;;
    *) dir=. ;;
  esac
  out=$(REPO=$repo timeout 300 findings/run.sh "$d" "$dir" 2>&1); r=$?
  if [ $r -ne 0 ]; then
    failed=$((failed+1)); rc=1
    if [ -z "${NOEVIDENCE:-}" ]; then rdir=replays/$prop; else rdir=$(mktemp -d /tmp/govc-demo.XXXXXX); fi
    mkdir -p "$rdir"
    f="$rdir/demo_$(echo "$d" | tr '/' '_' | sed 's/\.go$//').json"
    python3 - "$prop" "$d" "$dir" "$f" <<PY
import json,sys
prop,d,dr,f=sys.argv[1:5]
json.dump({"property":prop,"kind":"real failing input: demonstration test of a repaired defect fails again on the current tree",
 "test_file":"/verif/"+d,"package_dir":dr,"replay":"cd /verif && findings/run.sh "+d+" "+dr,
 "output":'''$(echo "$out" | tail -25 | sed "s/'''/'' '/g" | sed 's/\\/\\\\/g')'''},open(f,"w"),indent=1)
PY
    echo "VIOLATION property=$prop replay=$(readlink -f "$f")"
  fi
done
echo "$prop demos: $((n-failed))/$n demonstration tests pass on the current tree (repaired defects; thorough: also the seeded breaking changes)"
if [ -z "${NOEVIDENCE:-}" ] && [ -f "evidence/$prop.json" ]; then
  python3 - "$prop" "$n" "$failed" $demos <<'PY'
import json,sys
prop,n,failed=sys.argv[1],int(sys.argv[2]),int(sys.argv[3]); files=sys.argv[4:]
f="evidence/%s.json"%prop; e=json.load(open(f))
e["coverage"]["repaired_defect_demos"]={"run":n,"passed":n-failed,"files":files,"how":"go test -overlay against /repo's working tree (real code), one test file per repaired defect"}
if failed: e["violations"]=e.get("violations",0)+failed
json.dump(e,open(f,"w"),indent=1)
PY
fi
exit $rc
