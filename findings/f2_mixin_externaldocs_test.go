package analysis

// F2 (C17): Mixin panics when the primary has externalDocs and a mixin has none.

import (
	"encoding/json"
	"testing"

	"github.com/go-openapi/spec"
)

func TestFinding_F2_MixinExternalDocs(t *testing.T) {
	var primary, mixin spec.Swagger
	if err := json.Unmarshal([]byte(`{"swagger":"2.0","externalDocs":{"url":"http://example.com"},"paths":{}}`), &primary); err != nil {
		t.Fatal(err)
	}
	if err := json.Unmarshal([]byte(`{"swagger":"2.0","paths":{}}`), &mixin); err != nil {
		t.Fatal(err)
	}
	defer func() {
		if r := recover(); r != nil {
			t.Fatalf("Mixin panicked when only the primary has externalDocs: %v", r)
		}
	}()
	Mixin(&primary, &mixin)
}
