package analysis

// C06 violation 1 (needs option KeepNames=true together with Minimal=true).
//
// Sentence broken: "no remaining $ref dangles" (and, as a consequence, "the operations still mean the same").
//
// Input: a perfectly ordinary bundle (identifier-like names are enough; odd names behave the same), in which a
// schema refers to a part of another definition with a JSON pointer: {"$ref": "#/definitions/abc/properties/inner"}.
// This is a construct Flatten explicitly claims to handle ("Moving every JSON pointer to a $ref to a named definition").
// Flatten returns nil.
//
// Cause:
//   - flatten_name.go, InlineSchemaNamer.Name(): the loop "rewrite any dependent $ref pointing to this place" compares
//     r.Ref.String() (URL-escaped: "#/definitions/abc%20inner") with path.Join(definitionsPath, newName) (raw:
//     "#/definitions/abc inner"). With KeepNames the new name is "abc inner" (parts joined by a space, not mangled),
//     so the two never agree and the caller's $ref "#/definitions/abc/properties/inner" is NOT rewritten.
//     flattenAnonPointer (flatten.go) relies on that loop to rewrite the caller, so the anonymous pointer survives
//     namePointers.
//   - flatten.go, removeUnusedSinglePass()/definitionName(): only $ref's with exactly two tokens
//     ("#/definitions/{name}") keep a definition alive. The surviving "#/definitions/abc/properties/inner" does not
//     count as a use of "abc", so "abc" is deleted and the $ref is left dangling.
//
// Without RemoveUnused the same run leaves a resolvable (if non-canonical) document; it is the RemoveUnused pass
// that turns it into a dangling reference.

import (
	"encoding/json"
	"net/url"
	"strings"
	"testing"

	"github.com/go-openapi/spec"
)

func v1DanglingRefs(t *testing.T, sw *spec.Swagger) []string {
	t.Helper()
	raw, err := json.Marshal(sw)
	if err != nil {
		t.Fatal(err)
	}
	var doc interface{}
	if err := json.Unmarshal(raw, &doc); err != nil {
		t.Fatal(err)
	}
	var refs []string
	var walk func(v interface{})
	walk = func(v interface{}) {
		switch tv := v.(type) {
		case map[string]interface{}:
			for k, w := range tv {
				if s, ok := w.(string); ok && k == "$ref" {
					refs = append(refs, s)
					continue
				}
				walk(w)
			}
		case []interface{}:
			for _, w := range tv {
				walk(w)
			}
		}
	}
	walk(doc)
	var dangling []string
NEXT:
	for _, r := range refs {
		if !strings.HasPrefix(r, "#/") {
			dangling = append(dangling, r)
			continue
		}
		frag, err := url.PathUnescape(r[2:])
		if err != nil {
			dangling = append(dangling, r)
			continue
		}
		cur := doc
		for _, tok := range strings.Split(frag, "/") {
			tok = strings.ReplaceAll(strings.ReplaceAll(tok, "~1", "/"), "~0", "~")
			m, ok := cur.(map[string]interface{})
			if !ok {
				dangling = append(dangling, r)
				continue NEXT
			}
			if cur, ok = m[tok]; !ok {
				dangling = append(dangling, r)
				continue NEXT
			}
		}
	}
	return dangling
}

func TestC06Violation1_PointerIntoDefinitionSurvivesThenTargetRemoved(t *testing.T) {
	const doc = `{
  "swagger": "2.0",
  "info": {"title": "x", "version": "1"},
  "paths": {"/p": {"get": {"operationId": "getP", "responses": {"200": {"description": "ok", "schema": {"$ref": "#/definitions/other"}}}}}},
  "definitions": {
    "abc":   {"type": "object", "properties": {"inner": {"type": "object", "properties": {"q": {"type": "string"}}}}},
    "other": {"type": "object", "properties": {"x": {"$ref": "#/definitions/abc/properties/inner"}}}
  }
}`
	var sw spec.Swagger
	if err := json.Unmarshal([]byte(doc), &sw); err != nil {
		t.Fatal(err)
	}

	err := Flatten(FlattenOpts{Spec: New(&sw), BasePath: "/tmp/c06v1/root.json", Minimal: true, KeepNames: true, RemoveUnused: true})
	if err != nil {
		t.Skipf("Flatten failed, property is vacuous: %v", err)
	}

	out, _ := json.Marshal(sw.Definitions)
	if d := v1DanglingRefs(t, &sw); len(d) > 0 {
		t.Fatalf("C06 violated: dangling $ref(s) %q after a successful Flatten with RemoveUnused; definitions: %s", d, out)
	}
}
