package analysis

// F11 (C09): a $ref that is an anonymous JSON pointer to an absent optional part (here .../additionalItems of a
// definition that has none) makes jsonpointer.Get return a typed nil; the flattener dereferences it.

import (
	"encoding/json"
	"runtime/debug"
	"testing"

	"github.com/go-openapi/spec"
)

func TestFinding_F11_PointerToAbsentAdditionalItems(t *testing.T) {
	var sw spec.Swagger
	doc := `{"swagger":"2.0","info":{"title":"t","version":"1"},"paths":{},
	 "definitions":{"x":{"type":"array","items":[{"type":"string"}]},
	                "y":{"type":"object","properties":{"p":{"$ref":"#/definitions/x/additionalItems"}}}}}`
	if err := json.Unmarshal([]byte(doc), &sw); err != nil {
		t.Fatal(err)
	}
	defer func() {
		if r := recover(); r != nil {
			t.Fatalf("Flatten panicked instead of returning an error: %v\n%s", r, debug.Stack())
		}
	}()
	err := Flatten(FlattenOpts{Spec: New(&sw), BasePath: "/tmp/doc.json", Minimal: true})
	t.Logf("Flatten returned: %v", err)
}
