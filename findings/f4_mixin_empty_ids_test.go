package analysis

// F4 (C18): operations without an id are given the id "Mixin<N>" as soon as an id-less operation was seen before.

import (
	"encoding/json"
	"testing"

	"github.com/go-openapi/spec"
)

func TestFinding_F4_MixinEmptyIDs(t *testing.T) {
	var primary, mixin spec.Swagger
	if err := json.Unmarshal([]byte(`{"swagger":"2.0","paths":{"/a":{"get":{"responses":{"200":{"description":"ok"}}}}}}`), &primary); err != nil {
		t.Fatal(err)
	}
	if err := json.Unmarshal([]byte(`{"swagger":"2.0","paths":{"/b":{"get":{"responses":{"200":{"description":"ok"}}}}}}`), &mixin); err != nil {
		t.Fatal(err)
	}
	Mixin(&primary, &mixin)
	if id := primary.Paths.Paths["/b"].Get.ID; id != "" {
		t.Fatalf("operation without id was given the id %q by Mixin", id)
	}
}
