package analysis

import (
	"encoding/json"
	"testing"

	"github.com/go-openapi/spec"
)

// C06 violation 1: RemoveUnused deletes a definition that a remaining $ref still refers to,
// when that $ref sits in the "items" of a simple schema (parameter items / header items).
//
// Broken sentences of C06: "no remaining $ref dangles" and "the operations still mean the same (C01)".
//
// Why the input is inside the quantifier: a single root Swagger document in which every $ref resolves,
// the $refs target top-level definitions of the root, names are plain identifiers, option sets
// {Minimal, full, Expand} x RemoveUnused, KeepNames off. The property's hint list explicitly names definitions
// used only "from headers/items". (Caveat: strict Swagger 2.0 does not allow $ref in a primitive items object;
// but spec.Items embeds spec.Refable, the analyzer indexes these refs on purpose (referenceAnalysis.items /
// headerItems / parameterItems, AllItemsReferences) and the doc comment of Flatten promises to handle
// "parameter items and header items". Without RemoveUnused the very same input is flattened correctly:
// the $refs are left in place and keep resolving. Moreover Flatten itself treats these $refs as genuine ones:
// checkLocalRefs iterates over references.allRefs, items included, so that feeding the output of
// Flatten+RemoveUnused to Flatten again is rejected with "could not resolve schema: object has no key "Str"".)
//
// Cause: flatten.go removeUnusedSinglePass only subtracts opts.Spec.references.schemas from the set of definition
// names. The $refs held by spec.Items are recorded by analyzer.go (analyzeItems -> addItemsRef) in
// references.items/allRefs, never in references.schemas, and spec.ExpandSpec (step 1 of Flatten) does not expand
// them either. So "Str" and "Uid" are considered unused and deleted, while
// paths./a.get.parameters[0].items.$ref and paths./a.get.responses.200.headers.X-H.items.$ref still point to them.
func TestViolationC06_ItemsRefDangles(t *testing.T) {
	const doc = `{
 "swagger": "2.0",
 "info": {"title": "t", "version": "1"},
 "paths": {
  "/a": {
   "get": {
    "operationId": "getA",
    "parameters": [
     {"name": "q", "in": "query", "type": "array", "items": {"$ref": "#/definitions/Str"}}
    ],
    "responses": {
     "200": {
      "description": "ok",
      "headers": {"X-H": {"type": "array", "items": {"$ref": "#/definitions/Uid"}}}
     }
    }
   }
  }
 },
 "definitions": {
  "Str": {"type": "string", "format": "date"},
  "Uid": {"type": "string", "format": "uuid"}
 }
}`

	for _, o := range []struct {
		name            string
		minimal, expand bool
	}{
		{"minimal", true, false},
		{"full", false, false},
		{"expand", false, true},
	} {
		t.Run(o.name, func(t *testing.T) {
			var sw spec.Swagger
			if err := json.Unmarshal([]byte(doc), &sw); err != nil {
				t.Fatal(err)
			}

			err := Flatten(FlattenOpts{Spec: New(&sw), BasePath: "root.json", Minimal: o.minimal, Expand: o.expand, RemoveUnused: true})
			if err != nil {
				t.Fatalf("Flatten is expected to succeed: %v", err)
			}

			op := sw.Paths.Paths["/a"].Get
			refs := []spec.Ref{
				op.Parameters[0].Items.Ref,
				op.Responses.StatusCodeResponses[200].Headers["X-H"].Items.Ref,
			}
			for _, ref := range refs {
				if ref.String() == "" {
					continue // expanded in place: fine
				}
				target, _, err := ref.GetPointer().Get(&sw)
				if err != nil {
					t.Errorf("remaining $ref %q dangles after Flatten with RemoveUnused: %v (definitions left: %d)",
						ref.String(), err, len(sw.Definitions))

					continue
				}
				if _, ok := target.(spec.Schema); !ok {
					t.Errorf("remaining $ref %q resolves to %T", ref.String(), target)
				}
			}
		})
	}
}
