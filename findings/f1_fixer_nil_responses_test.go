package analysis

// F1 (C19): FixEmptyResponseDescriptions panics on an operation without a responses object.
// Run from /verif: see findings/README.md (go test -overlay).

import (
	"encoding/json"
	"testing"

	"github.com/go-openapi/spec"
)

func TestFinding_F1_FixerNilResponses(t *testing.T) {
	var sw spec.Swagger
	if err := json.Unmarshal([]byte(`{"swagger":"2.0","paths":{"/a":{"get":{}}}}`), &sw); err != nil {
		t.Fatal(err)
	}
	defer func() {
		if r := recover(); r != nil {
			t.Fatalf("FixEmptyResponseDescriptions panicked on an operation without responses: %v", r)
		}
	}()
	FixEmptyResponseDescriptions(&sw)
}
