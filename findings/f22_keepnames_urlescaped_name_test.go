package analysis

// C06 violation 2 (needs option KeepNames=true together with Minimal=true).
//
// Sentence broken: "no remaining $ref dangles ... This holds whatever characters definition names contain."
//
// Input: a definition whose name needs URL escaping in a $ref (space here; unicode, braces and brackets behave the
// same: "é", "{a}", "a[0]"), and another schema that points inside it with a JSON pointer:
// {"$ref": "#/definitions/a%20b/properties/inner"}. All names are inside the stated alphabet. Flatten returns nil.
//
// Cause:
//   - flatten.go, flattenAnonPointer(): calls namer.Name(v.Ref.String(), ...) - the key handed to the namer is the
//     URL-escaped rendering of the $ref ("#/definitions/a%20b/properties/inner").
//   - internal/flatten/sortref/keys.go, KeyParts(): only undoes the JSON-pointer escaping of each segment, not the URL
//     escaping, so the definition name part is "a%20b" and (KeepNames: no mangling) the new definition is stored by
//     schutils.Save under the key "a%20b inner".
//   - flatten_name.go, Name(): the $ref that replaces the inline schema is
//     spec.MustCreateRef(path.Join("#/definitions", "a%20b inner")), which, read as a URL fragment, designates the
//     definition "a b inner": the two escapings disagree.
//   - flatten.go, removeUnusedSinglePass(): "a%20b inner" is referred to by nobody (the $ref decodes to another name)
//     so it is deleted - the schema content is lost - and the $ref "#/definitions/a%20b%20inner" dangles. In the same
//     run the pointer "#/definitions/a%20b/properties/inner" is left in place (see violation 1) and its target "a b"
//     is removed as well.
//
// (Without KeepNames the mangler turns "a%20b inner" into "a20bInner", which hides the problem.)

import (
	"encoding/json"
	"net/url"
	"strings"
	"testing"

	"github.com/go-openapi/spec"
)

func v2DanglingRefs(t *testing.T, sw *spec.Swagger) []string {
	t.Helper()
	raw, err := json.Marshal(sw)
	if err != nil {
		t.Fatal(err)
	}
	var doc interface{}
	if err := json.Unmarshal(raw, &doc); err != nil {
		t.Fatal(err)
	}
	var refs []string
	var walk func(v interface{})
	walk = func(v interface{}) {
		switch tv := v.(type) {
		case map[string]interface{}:
			for k, w := range tv {
				if s, ok := w.(string); ok && k == "$ref" {
					refs = append(refs, s)
					continue
				}
				walk(w)
			}
		case []interface{}:
			for _, w := range tv {
				walk(w)
			}
		}
	}
	walk(doc)
	var dangling []string
NEXT:
	for _, r := range refs {
		if !strings.HasPrefix(r, "#/") {
			dangling = append(dangling, r)
			continue
		}
		frag, err := url.PathUnescape(r[2:])
		if err != nil {
			dangling = append(dangling, r)
			continue
		}
		cur := doc
		for _, tok := range strings.Split(frag, "/") {
			tok = strings.ReplaceAll(strings.ReplaceAll(tok, "~1", "/"), "~0", "~")
			m, ok := cur.(map[string]interface{})
			if !ok {
				dangling = append(dangling, r)
				continue NEXT
			}
			if cur, ok = m[tok]; !ok {
				dangling = append(dangling, r)
				continue NEXT
			}
		}
	}
	return dangling
}

func TestC06Violation2_NewDefinitionStoredUnderURLEscapedName(t *testing.T) {
	// "a b" is used directly by the operation (so that it is not removed) and pointed into by "other".
	const doc = `{
  "swagger": "2.0",
  "info": {"title": "x", "version": "1"},
  "paths": {"/p": {"get": {"operationId": "getP", "responses": {
     "200": {"description": "ok", "schema": {"$ref": "#/definitions/other"}},
     "201": {"description": "ok", "schema": {"$ref": "#/definitions/a%20b"}}
  }}}},
  "definitions": {
    "a b":   {"type": "object", "properties": {"inner": {"type": "object", "properties": {"q": {"type": "string"}}}}},
    "other": {"type": "object", "properties": {"x": {"$ref": "#/definitions/a%20b/properties/inner"}}}
  }
}`
	var sw spec.Swagger
	if err := json.Unmarshal([]byte(doc), &sw); err != nil {
		t.Fatal(err)
	}

	err := Flatten(FlattenOpts{Spec: New(&sw), BasePath: "/tmp/c06v2/root.json", Minimal: true, KeepNames: true, RemoveUnused: true})
	if err != nil {
		t.Skipf("Flatten failed, property is vacuous: %v", err)
	}

	out, _ := json.Marshal(sw.Definitions)
	d := v2DanglingRefs(t, &sw)
	for _, r := range d {
		if r == "#/definitions/a%20b%20inner" {
			t.Fatalf("C06 violated: $ref %q dangles (its schema was stored as \"a%%20b inner\" and removed as unused); all dangling: %q; definitions: %s", r, d, out)
		}
	}
	if len(d) > 0 {
		t.Fatalf("C06 violated: dangling $ref(s) %q; definitions: %s", d, out)
	}
}
