package analysis

// F3 (C18): Mixin ignores OPTIONS operations when collecting and renaming operation ids:
// a primary GET "x" and a mixin OPTIONS "x" both keep the id "x".

import (
	"encoding/json"
	"testing"

	"github.com/go-openapi/spec"
)

func TestFinding_F3_MixinOptionsIDs(t *testing.T) {
	var primary, mixin spec.Swagger
	if err := json.Unmarshal([]byte(`{"swagger":"2.0","paths":{"/a":{"get":{"operationId":"x","responses":{"200":{"description":"ok"}}}}}}`), &primary); err != nil {
		t.Fatal(err)
	}
	if err := json.Unmarshal([]byte(`{"swagger":"2.0","paths":{"/b":{"options":{"operationId":"x","responses":{"200":{"description":"ok"}}}}}}`), &mixin); err != nil {
		t.Fatal(err)
	}
	Mixin(&primary, &mixin)
	a := primary.Paths.Paths["/a"].Get.ID
	b := primary.Paths.Paths["/b"].Options.ID
	if a == b {
		t.Fatalf("duplicate operation id after Mixin: GET /a = %q, OPTIONS /b = %q", a, b)
	}
}
