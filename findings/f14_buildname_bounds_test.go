package analysis

// F14 (C09): Flatten panics (slice bounds out of range in sortref.SplitKey.BuildName) when a schema position that is
// referenced by more than one anonymous JSON pointer lies inside an operation above the depth the namer expects,
// e.g. two $refs to "#/paths/~1a/get/responses/200": namesForOperation sets startIndex = 6 for a 5-token key.

import (
	"encoding/json"
	"testing"

	"github.com/go-openapi/spec"
)

func TestFinding_F14_PointerIntoOperationResponses(t *testing.T) {
	for _, target := range []string{"#/paths/~1a/get/responses/200", "#/paths/~1a/get/responses"} {
		var sw spec.Swagger
		doc := `{"swagger":"2.0","info":{"title":"t","version":"1"},
		 "paths":{"/a":{"get":{"operationId":"getA","responses":{"200":{"description":"ok","schema":{"type":"string"}}}}}},
		 "definitions":{"y":{"type":"object","properties":{"p":{"$ref":"` + target + `"},"q":{"$ref":"` + target + `"}}}}}`
		if err := json.Unmarshal([]byte(doc), &sw); err != nil {
			t.Fatal(err)
		}
		func() {
			defer func() {
				if r := recover(); r != nil {
					t.Errorf("target %s: Flatten panicked instead of returning normally or with an error: %v", target, r)
				}
			}()
			err := Flatten(FlattenOpts{Spec: New(&sw), BasePath: "/tmp/doc.json", Minimal: true})
			t.Logf("target %s: Flatten returned %v", target, err)
		}()
	}
}
