#!/bin/bash
# usage: findings/run.sh <test-file> [<pkg-dir-relative-to-repo>]   -- injects the test into /repo via -overlay (nothing is written to /repo)
set -u
export GOFLAGS=-mod=mod GOPROXY=off GOSUMDB=off GOTOOLCHAIN=local
f=$(readlink -f "$1"); dir=${2:-.}; repo=${REPO:-/repo}
name=$(basename "$f")
ov=$(mktemp /tmp/ov.XXXXXX.json)
printf '{"Replace":{"%s/%s/zz_%s":"%s"}}' "$repo" "$dir" "$name" "$f" > "$ov"
run=$(grep -o 'func Test[A-Za-z0-9_]*' "$f" | sed 's/func //' | paste -sd'|')
(set -o pipefail; cd "$repo/$dir" && go test -overlay "$ov" -vet=off -count=1 -timeout 60s -run "^($run)\$" . 2>&1 | tail -15)
rc=$?
rm -f "$ov"
exit $rc
