package analysis

import (
	"encoding/json"
	"os"
	"path/filepath"
	"testing"

	"github.com/go-openapi/spec"
)

// Violation of C09, sentence: "If a referenced document cannot be loaded or a $ref cannot be resolved (and
// ContinueOnError is off), Flatten returns an error rather than reporting success."
//
// (Weaker than violations 1-3: it hinges on reading "cannot be resolved" against the JSON document rather than
// against the Go model, in which an absent key and an empty value are the same thing.)
//
// Input: a dangling local $ref ("dangling $refs" are in W+): definition A is {"type": "string"}: it has no
// "allOf" key, and B.properties.x is {"$ref": "#/definitions/A/allOf"}. The JSON pointer /definitions/A/allOf
// does not exist in the document.
//
// Outcome on the unchanged code: under all option sets, Flatten returns nil and B.properties.x silently becomes
// the empty schema {} (anything goes). The very same dangling pointer is reported as an error as soon as the
// target lives in another document ("sub/aux.json#/definitions/A/allOf": resolved on the raw JSON), and so are
// pointers to absent parts that the model holds as nil *pointers* ("#/definitions/A/items",
// ".../additionalProperties", ".../not": "could not resolve schema: no schema to analyze").
// Same success for pointers to any other absent part that the model holds as a nil map, slice or interface:
// ".../properties", ".../definitions", ".../required", ".../enum", ".../example", "#/parameters", "#/responses",
// "#/securityDefinitions", "#/tags".
//
// Cause: checkLocalRefs (flatten.go:248-270) relies on isAbsent (flatten.go:274-278), which only recognizes a
// nil reflect.Ptr: a nil []spec.Schema, a nil map or a nil interface pass. Later on replace.DeepestRef
// (replace.go:447-464) marshals that nil value as "null", which unmarshals as an empty schema, and
// spec.ResolveRefWithBase (replace.go:468) / spec.ExpandSpec do the same: the unresolvable $ref is "resolved".
func TestViolation4_DanglingPointerToAbsentPartReportedAsSuccess(t *testing.T) {
	const doc = `{"swagger":"2.0","info":{"title":"t","version":"1"},"paths":{},
  "definitions":{
    "A":{"type":"string"},
    "B":{"type":"object","properties":{"x":{"$ref":"#/definitions/A/allOf"}}}
  }}`

	// the JSON pointer does not resolve against the document
	var raw map[string]interface{}
	if err := json.Unmarshal([]byte(doc), &raw); err != nil {
		t.Fatal(err)
	}
	if _, exists := raw["definitions"].(map[string]interface{})["A"].(map[string]interface{})["allOf"]; exists {
		t.Fatal("the test document is expected to have no /definitions/A/allOf")
	}

	for _, mode := range []string{"minimal", "full", "expand"} {
		var sw spec.Swagger
		if err := json.Unmarshal([]byte(doc), &sw); err != nil {
			t.Fatal(err)
		}

		err := Flatten(FlattenOpts{Spec: New(&sw), BasePath: "root.json", Minimal: mode == "minimal", Expand: mode == "expand"})
		if err == nil {
			x, _ := json.Marshal(sw.Definitions["B"].Properties["x"])
			t.Errorf("C09 violated (%s): Flatten reports success although $ref %q cannot be resolved; B.properties.x is now: %s",
				mode, "#/definitions/A/allOf", x)
		}
	}

	// for the record: the same pointer, into another document, is an error
	dir := t.TempDir()
	if err := os.MkdirAll(filepath.Join(dir, "sub"), 0o755); err != nil {
		t.Fatal(err)
	}
	if err := os.WriteFile(filepath.Join(dir, "sub", "aux.json"), []byte(`{"definitions":{"A":{"type":"string"}}}`), 0o600); err != nil {
		t.Fatal(err)
	}
	var sw spec.Swagger
	if err := json.Unmarshal([]byte(`{"swagger":"2.0","info":{"title":"t","version":"1"},"paths":{},
  "definitions":{"B":{"type":"object","properties":{"x":{"$ref":"sub/aux.json#/definitions/A/allOf"}}}}}`), &sw); err != nil {
		t.Fatal(err)
	}
	err := Flatten(FlattenOpts{Spec: New(&sw), BasePath: filepath.Join(dir, "root.json"), Minimal: true})
	t.Logf("same dangling pointer into an auxiliary document: err=%v", err)
}
