package analysis

import (
	"encoding/json"
	"fmt"
	"testing"

	"github.com/go-openapi/spec"
)

// VIOLATION 1 of C09 ("Flatten fails safe").
//
// Sentence broken: "On any document the spec model can load, Flatten, New and Schema terminate and either return
// normally or return an error: they never panic".
//
// Input: a document with a (stale) local JSON pointer "$ref" to an ABSENT optional schema position, such as
// "#/definitions/a/additionalItems", ".../items", ".../not", ".../additionalProperties" or the absent "schema" of a
// response. Resolving such a pointer against the in-memory spec.Swagger yields a typed nil (e.g. (*spec.SchemaOrBool)(nil)).
// This is inside the quantifier: W+ explicitly lists "dangling $refs" and "anonymous pointers to arbitrary schema
// positions", and the property text itself quotes "a stale pointer to '.../additionalItems' yields a typed nil".
// No fault injection, no special names, ContinueOnError is off.
//
// Cause: internal/flatten/replace.DeepestRef (replace.go:379-412) guards against the typed nil, but the other routes
// that resolve a $ref do not:
//   - schema.go:109-123 (*AnalyzedSchema).inferFromRef calls spec.ExpandSchema on the $ref; it is reached through
//     inferArray/inferMap (schema.go:189-199, 217-228) for an inline array/map whose items/additionalProperties is the $ref.
//     Flatten calls it from nameInlinedSchemas (flatten.go:277, step 5), i.e. BEFORE namePointers/DeepestRef (step 6)
//     has had a chance to reject the pointer, and checkLocalRefs (flatten.go:242-258) accepts the pointer because
//     jsonpointer.Get returns the typed nil without error.
//   - flatten.go:178-186 expand() calls spec.ExpandSpec with SkipSchemas=false when opts.Expand is set.
//
// In both cases go-openapi/spec (*schemaLoader).resolveRef hands the typed nil to swag.DynamicJSONToStruct, which panics with
// "value method github.com/go-openapi/spec.SchemaOrBool.MarshalJSON called using nil *SchemaOrBool pointer".
// Nothing in Flatten / Schema recovers or pre-checks, so the panic escapes to the caller.

const violation1Doc = `{
 "swagger":"2.0","info":{"title":"x","version":"1"},"paths":{},
 "definitions":{
  "a":{"type":"object","properties":{
    "p":{"type":"array","items":{"$ref":"#/definitions/a/additionalItems"}}
  }}
 }}`

func violation1Load(t *testing.T) *spec.Swagger {
	var sw spec.Swagger
	if err := json.Unmarshal([]byte(violation1Doc), &sw); err != nil {
		t.Fatalf("the spec model must load the document: %v", err)
	}

	return &sw
}

func violation1Guard(t *testing.T, what string, fn func() error) {
	t.Helper()
	defer func() {
		if r := recover(); r != nil {
			t.Errorf("%s PANICKED instead of returning an error: %v", what, r)
		}
	}()

	err := fn()
	t.Logf("%s returned: %v", what, err)
}

func TestViolation1_TypedNilPointer_FlattenFull(t *testing.T) {
	sw := violation1Load(t)
	violation1Guard(t, "Flatten(full)", func() error {
		return Flatten(FlattenOpts{Spec: New(sw), BasePath: "/tmp/root.json"})
	})
}

func TestViolation1_TypedNilPointer_FlattenExpand(t *testing.T) {
	sw := violation1Load(t)
	violation1Guard(t, "Flatten(Expand)", func() error {
		return Flatten(FlattenOpts{Spec: New(sw), BasePath: "/tmp/root.json", Expand: true})
	})
}

func TestViolation1_TypedNilPointer_Schema(t *testing.T) {
	sw := violation1Load(t)
	for _, target := range []string{
		"#/definitions/a/additionalItems", "#/definitions/a/additionalProperties", "#/definitions/a/items", "#/definitions/a/not",
	} {
		target := target
		violation1Guard(t, fmt.Sprintf("Schema($ref %s)", target), func() error {
			_, err := Schema(SchemaOpts{Schema: spec.RefSchema(target), Root: sw, BasePath: "/tmp/root.json"})

			return err
		})
	}
}
