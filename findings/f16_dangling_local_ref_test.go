package analysis

import (
	"encoding/json"
	"testing"

	"github.com/go-openapi/spec"
)

// F16 (C09): Flatten reported success (minimal and full modes, with or without RemoveUnused) on a document holding a
// local $ref to a definition that does not exist: schema $refs are skipped by the expander in these modes and nothing
// else resolved them.
func TestF16_DanglingLocalRefIsReported(t *testing.T) {
	doc := `{"swagger":"2.0","info":{"title":"t","version":"1"},"paths":{"/p":{"get":{"responses":{"200":{"description":"ok","schema":{"$ref":"#/definitions/missing"}}}}}},"definitions":{"a":{"type":"object","properties":{"b":{"$ref":"#/definitions/missing2"}}}}}`
	for _, mode := range []string{"minimal", "full", "expand", "minimal+removeunused", "full+removeunused"} {
		sw := new(spec.Swagger)
		if err := json.Unmarshal([]byte(doc), sw); err != nil {
			t.Fatal(err)
		}
		o := FlattenOpts{Spec: New(sw), BasePath: "/tmp/x.json",
			Minimal: mode == "minimal" || mode == "minimal+removeunused", Expand: mode == "expand",
			RemoveUnused: mode == "minimal+removeunused" || mode == "full+removeunused"}
		if err := Flatten(o); err == nil {
			t.Errorf("%s: Flatten reports success on a document with an unresolvable $ref", mode)
		}
	}
	// a document whose $refs all resolve (including an anonymous pointer and an escaped name) is still accepted
	good := `{"swagger":"2.0","info":{"title":"t","version":"1"},"paths":{"/p":{"get":{"responses":{"200":{"description":"ok","schema":{"$ref":"#/definitions/a~1b"}}}}}},"definitions":{"a/b":{"type":"object","properties":{"c":{"type":"object","properties":{"d":{"type":"string"}}},"e":{"$ref":"#/definitions/a~1b/properties/c"}}}}}`
	for _, minimal := range []bool{true, false} {
		sw := new(spec.Swagger)
		if err := json.Unmarshal([]byte(good), sw); err != nil {
			t.Fatal(err)
		}
		if err := Flatten(FlattenOpts{Spec: New(sw), BasePath: "/tmp/x.json", Minimal: minimal}); err != nil {
			t.Errorf("minimal=%v: unexpected error on a document whose $refs resolve: %v", minimal, err)
		}
	}
}
