package analysis

import (
	"encoding/json"
	"testing"

	"github.com/go-openapi/spec"
)

// F26 (C09): a local $ref whose fragment is not a JSON pointer ("#definitions/nope": the leading "/" is missing) has
// an empty pointer, which resolves to the whole document: checkLocalRefs accepted it, the expander inlined the document
// (or an empty object) and Flatten returned nil.
func TestF26_MalformedFragmentIsReported(t *testing.T) {
	docs := map[string]string{
		"schema":    `{"swagger":"2.0","info":{"title":"t","version":"1"},"paths":{"/p":{"get":{"responses":{"200":{"description":"ok","schema":{"$ref":"#definitions/nope"}}}}}},"definitions":{"a":{"type":"string"}}}`,
		"parameter": `{"swagger":"2.0","info":{"title":"t","version":"1"},"paths":{"/p":{"get":{"parameters":[{"$ref":"#parameters/nope"}],"responses":{"200":{"description":"ok"}}}}}}`,
		"response":  `{"swagger":"2.0","info":{"title":"t","version":"1"},"paths":{"/p":{"get":{"responses":{"200":{"$ref":"#responses/nope"}}}}}}`,
	}
	for name, doc := range docs {
		for _, mode := range []string{"minimal", "full", "expand"} {
			sw := new(spec.Swagger)
			if err := json.Unmarshal([]byte(doc), sw); err != nil {
				t.Fatal(err)
			}
			o := FlattenOpts{Spec: New(sw), BasePath: "/tmp/x.json", Minimal: mode == "minimal", Expand: mode == "expand"}
			if err := Flatten(o); err == nil {
				t.Errorf("%s, %s: Flatten reports success on a $ref that is not a JSON pointer", name, mode)
			}
		}
	}
}
