package analysis

// C17 violation 1 (single call): spurious collision warnings, because Mixin
// adopts a mixin's own maps / pointers into the primary and then keeps
// writing into them while merging the following mixins.
//
// Sentence of the property that is broken:
//   "The returned list has exactly one entry per key collision (paths,
//    definitions, parameters, responses, security definitions, tags, security
//    requirements, extension keys)".
//   The extension keys "x-b" (top level) and "x-ib" (info) occur in exactly ONE
//   of the documents handed to Mixin (m2), so there is no collision on them,
//   yet Mixin reports one for each: 5 warnings instead of 3.
//
// Why the input is inside the quantifier:
//   "for every primary and every sequence of 0..3 mixin documents with
//    overlapping and disjoint keys in every section, each optional top-level
//    part (info, ..., extensions) independently present or absent on each
//    side". The primary has neither info nor extensions (both "absent"), the
//    sequence of mixins is (m1, m2, m1): three documents, the third one being
//    the same document as the first (maximal key overlap). All documents are
//    plain, valid JSON Swagger 2.0; only lower-case x- keys are used.
//   The control run with an independently loaded, byte-identical copy of m1 in
//   third position yields the correct 3 warnings, which shows that the
//   difference is produced by Mixin itself and not by the documents' content.
//
// Cause in the code (mixin.go):
//   - mergeExtensions, lines 455-459: when the primary has no extensions it
//     returns the mixin's map itself (`result = m`), so primary.Extensions and
//     m1.Extensions become the SAME map; merging m2 (line 475
//     `primary[k] = v`) then inserts m2's keys into m1's map as well.
//   - mergeSwaggerProps, lines 363-364 (`primary.Info = m.Info`) - same for
//     370-371 (ExternalDocs) and mergeInfo 415-416 (Contact), 435-436
//     (License): the mixin's pointer is adopted, the next mixin is merged
//     *into the first mixin's object* (mergeInfo line 396 writes m2's
//     info extensions into m1.Info.Extensions, lines 399-413 fill m1's
//     empty scalars).
//   When m1 comes up again it has silently acquired m2's keys, which now
//   "collide".

import (
	"encoding/json"
	"testing"

	"github.com/go-openapi/spec"
)

func v1Load(t *testing.T, doc string) *spec.Swagger {
	t.Helper()
	sw := new(spec.Swagger)
	if err := json.Unmarshal([]byte(doc), sw); err != nil {
		t.Fatal(err)
	}
	return sw
}

const (
	v1Primary = `{"swagger":"2.0","paths":{}}`
	v1M1      = `{"swagger":"2.0","x-a":1,"info":{"title":"t","version":"1","x-ia":1},"paths":{"/a":{}}}`
	v1M2      = `{"swagger":"2.0","x-b":2,"info":{"title":"u","version":"2","x-ib":2},"paths":{"/b":{}}}`
)

func TestViolationC17_1_SpuriousCollisionsThroughAdoptedMixinParts(t *testing.T) {
	// expected by the documented rules, on the documents as given:
	//   m1 (1st): nothing collides                      -> 0
	//   m2      : nothing collides                      -> 0
	//   m1 (3rd): x-a, info.x-ia, paths./a collide      -> 3
	const want = 3

	// control: three independently loaded documents
	ctl := Mixin(v1Load(t, v1Primary), v1Load(t, v1M1), v1Load(t, v1M2), v1Load(t, v1M1))
	if len(ctl) != want {
		t.Fatalf("control run: expected %d collisions, got %d: %q", want, len(ctl), ctl)
	}

	primary, m1, m2 := v1Load(t, v1Primary), v1Load(t, v1M1), v1Load(t, v1M2)
	got := Mixin(primary, m1, m2, m1)
	if len(got) != want {
		t.Errorf("expected exactly %d collision entries (x-a, x-ia, /a), got %d: %q", want, len(got), got)
	}
	for _, w := range got {
		if w == "x-b" || w == "x-ib" {
			t.Errorf("collision reported for %q, a key that only ONE input document (m2) contains", w)
		}
	}
}
