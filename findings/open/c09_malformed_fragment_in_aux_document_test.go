package analysis

// C09 violation 1: a $ref whose fragment is not a JSON pointer (typically a forgotten leading slash,
// "#definitions/nope" instead of "#/definitions/nope") cannot be resolved, yet Flatten returns nil.
//
// Broken sentence: "If a referenced document cannot be loaded or a $ref cannot be resolved (and ContinueOnError is
// off), Flatten returns an error rather than reporting success."
//
// Inside the quantifier: the root document is loaded by the spec model without complaint (spec.Ref accepts the text),
// W+ explicitly admits "dangling $refs", every option set {Minimal, full, Expand} x {RemoveUnused} is affected, no
// excluded character or configuration is involved (no '%', no ContinueOnError, body/response schemas only).
//
// What happens instead of an error:
//   - schema $ref "#definitions/nope": the WHOLE root document is inlined as the response schema
//     (and the copy still carries the unresolvable $ref);
//   - parameter / response / path item $ref "#parameters/nope" etc.: the object is silently replaced by an empty one
//     ("parameters":[{}]);
//   - in an auxiliary document, "#definitions/nope" imports the whole auxiliary document as a definition.
//
// Cause: for such a ref, spec.Ref.GetPointer() is the EMPTY pointer (the jsonreference parser drops the invalid pointer
// silently) while HasFragmentOnly is true. checkLocalRefs (flatten.go:248-270) evaluates ref.GetPointer().Get(root):
// the empty pointer designates the root document itself, so the guard passes, both times it runs. spec.ExpandSpec /
// spec.ResolveRefWithBase (flatten.go:185, 394) then resolve the ref to the whole document, without error, and
// importNewRef / expand never compare the fragment text of the $ref against the pointer actually resolved.
// No other step of Flatten re-checks (namePointers only calls replace.DeepestRef, which resolves the same way).

import (
	"encoding/json"
	"os"
	"path/filepath"
	"testing"

	"github.com/go-openapi/spec"
)

func v1Flatten(t *testing.T, files map[string]string, minimal, expand, removeUnused bool) (error, string) {
	t.Helper()
	dir := t.TempDir()
	for name, content := range files {
		p := filepath.Join(dir, filepath.FromSlash(name))
		if err := os.MkdirAll(filepath.Dir(p), 0o755); err != nil {
			t.Fatal(err)
		}
		if err := os.WriteFile(p, []byte(content), 0o600); err != nil {
			t.Fatal(err)
		}
	}
	var sw spec.Swagger
	if err := json.Unmarshal([]byte(files["root.json"]), &sw); err != nil {
		t.Fatalf("the spec model cannot load the root: %v", err)
	}
	err := Flatten(FlattenOpts{
		Spec: New(&sw), BasePath: filepath.Join(dir, "root.json"),
		Minimal: minimal, Expand: expand, RemoveUnused: removeUnused,
	})
	b, _ := json.Marshal(sw)

	return err, string(b)
}

func TestViolation1_MalformedFragmentRefReportsSuccess(t *testing.T) {
	const head = `"swagger":"2.0","info":{"title":"t","version":"1"}`
	cases := map[string]map[string]string{
		"schema $ref in root": {
			"root.json": `{` + head + `,"paths":{"/x":{"get":{"responses":{"200":{"description":"ok","schema":{"$ref":"#definitions/nope"}}}}}},
				"definitions":{"a":{"type":"object","properties":{"p":{"type":"string"}}}}}`,
		},
		"parameter $ref in root": {
			"root.json": `{` + head + `,"paths":{"/x":{"get":{"parameters":[{"$ref":"#parameters/nope"}],"responses":{"200":{"description":"ok"}}}}},
				"parameters":{"p":{"name":"q","in":"query","type":"string"}}}`,
		},
		"response $ref in root": {
			"root.json": `{` + head + `,"paths":{"/x":{"get":{"responses":{"200":{"$ref":"#responses/nope"}}}}},
				"responses":{"r":{"description":"d"}}}`,
		},
		"path item $ref in root": {
			"root.json": `{` + head + `,"paths":{"/x":{"$ref":"#paths/~1nope"},"/y":{"get":{"responses":{"200":{"description":"ok"}}}}}}`,
		},
		"schema $ref in auxiliary document": {
			"root.json": `{` + head + `,"paths":{"/x":{"get":{"responses":{"200":{"description":"ok","schema":{"$ref":"sub/aux.json#/definitions/x"}}}}}},
				"definitions":{"a":{"type":"object"}}}`,
			"sub/aux.json": `{"definitions":{"x":{"type":"object","properties":{"p":{"$ref":"#definitions/nope"}}},"y":{"type":"string"}}}`,
		},
	}

	for name, files := range cases {
		for _, o := range []struct {
			name                          string
			minimal, expand, removeUnused bool
		}{
			{"minimal", true, false, false},
			{"minimal+removeUnused", true, false, true},
			{"full", false, false, false},
			{"full+removeUnused", false, false, true},
			{"expand", false, true, false},
			{"expand+removeUnused", false, true, true},
		} {
			err, result := v1Flatten(t, files, o.minimal, o.expand, o.removeUnused)
			if err == nil {
				t.Errorf("%s [%s]: the $ref cannot be resolved, but Flatten returned nil. Result:\n  %.700s", name, o.name, result)
			}
		}
	}
}
