package analysis

// C03 violation 1 - operations whose derived names collide are dropped from the operation index,
// so the complex schemas inlined under the dropped operation are never named.
//
// Broken sentence: "After a successful full flatten (neither Minimal nor Expand), no object-with-properties,
// allOf composition or tuple remains inline anywhere except as the body of a top-level definition".
//
// Input: a single, valid Swagger 2.0 document (no external $ref, no unusual characters): two paths "/pets" and
// "/pets/" (a collection with and without trailing slash), each with a GET operation without operationId
// (operationId is optional in Swagger 2.0) returning an inline object with one property. Flatten is run with the
// default options (Minimal=false, Expand=false) and succeeds.
//
// Cause: internal/flatten/operations/operations.go, GatherOperations(): operations are indexed by operationId or,
// when absent, by swag.ToGoName(method+" "+path). "get /pets" and "get /pets/" both give "GetPets" (same for
// "/pets/{id}" vs "/pets/id", "/a-b" vs "/a/b", "/pets" vs "/Pets", an operationId equal to another operation's
// derived key, or the same operationId on two methods of one path). When the names collide and the method OR the
// path is the same, `operations[nm] = opr` silently overwrites the previous entry. The dropped operation is then
// absent from AllOpRefsByRef(), so in flatten_name.go namesForOperation()/namesForParam() `operations[piref.String()]`
// misses, namesFromKey() returns no name, and InlineSchemaNamer.Name() loops over zero names: it returns nil without
// moving the schema. nameInlinedSchemas (flatten.go) therefore leaves the schema inline and Flatten returns nil.

import (
	"encoding/json"
	"testing"

	"github.com/go-openapi/spec"
)

func TestViolation1_OperationNameCollisionLeavesInlineSchema(t *testing.T) {
	const doc = `{
	  "swagger":"2.0","info":{"title":"x","version":"1"},
	  "paths":{
	    "/pets":{"get":{"responses":{"200":{"description":"ok",
	       "schema":{"type":"object","properties":{"a":{"type":"string"}}}}}}},
	    "/pets/":{"get":{"responses":{"200":{"description":"ok",
	       "schema":{"type":"object","properties":{"b":{"type":"string"}}}}}}}
	  }
	}`

	var sw spec.Swagger
	if err := json.Unmarshal([]byte(doc), &sw); err != nil {
		t.Fatal(err)
	}

	if err := Flatten(FlattenOpts{Spec: New(&sw), BasePath: "fixtures/none.json"}); err != nil {
		t.Fatalf("flatten is expected to succeed: %v", err)
	}

	for _, pth := range []string{"/pets", "/pets/"} {
		sch := sw.Paths.Paths[pth].Get.Responses.StatusCodeResponses[200].Schema
		if sch == nil {
			t.Fatalf("%s: schema lost", pth)
		}
		if sch.Ref.String() == "" && len(sch.Properties) > 0 {
			b, _ := json.Marshal(sch)
			t.Errorf("C03 violated: after a successful full flatten, GET %s 200 still holds an inline object with properties: %s (definitions: %d)",
				pth, b, len(sw.Definitions))
		}
	}
}
