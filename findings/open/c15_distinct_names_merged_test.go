package analysis

import (
	"encoding/json"
	"sort"
	"testing"

	"github.com/go-openapi/spec"
)

// C15 violation 1: parameters with DIFFERENT names in the same location are merged/dropped.
//
// Broken sentence: "The parameters reported for an operation are the path-level parameters
// overridden by the operation's own parameters with the same location and name".
// Here NO two parameters share (in,name): the path item declares query "user_id", the operation
// declares query "userId", query "id" and query "ID" (query names are case sensitive, and all four
// names are distinct strings). The effective parameter set therefore has 4 members.
// The code reports only 2: "user_id" is "overridden" by "userId", and "id" by "ID".
//
// Inside the quantifier: loadable document with a paths section, path-level and operation-level
// inline parameters, "without (in,name) overlaps", existing method x path, lookup by a unique
// non-empty operation id.
//
// Cause: analyzer.go mapKeyFromParam/fieldNameFromParam (lines 644-655): the merge key is
// in + "#" + swag.ToGoName(name), not in + name; ToGoName is not injective
// ("user_id","userId","user-id","user id" -> "UserID"; "id","ID","Id" -> "ID"; "-","_" -> "").
// paramsAsMap (670-707) stores into a map under that key, so distinct parameters overwrite each other,
// both between path item and operation and inside a single parameter list.
func TestC15Violation1_DistinctNamesCollide(t *testing.T) {
	const doc = `{"swagger":"2.0","info":{"title":"x","version":"1"},
	"paths":{"/a":{
	  "parameters":[{"name":"user_id","in":"query","type":"string"}],
	  "get":{"operationId":"getA","parameters":[
	     {"name":"userId","in":"query","type":"string"},
	     {"name":"id","in":"query","type":"string"},
	     {"name":"ID","in":"query","type":"string"}
	  ],"responses":{"200":{"description":"ok"}}}}}}`
	sw := new(spec.Swagger)
	if err := json.Unmarshal([]byte(doc), sw); err != nil {
		t.Fatal(err)
	}
	an := New(sw)
	want := []string{"query/ID", "query/id", "query/userId", "query/user_id"}

	var got []string
	for _, p := range an.ParametersFor("getA") {
		got = append(got, p.In+"/"+p.Name)
	}
	sort.Strings(got)
	if len(got) != len(want) {
		t.Errorf("ParametersFor(getA): want %v, got %v", want, got)
	}

	got = nil
	for _, p := range an.ParamsFor("GET", "/a") {
		got = append(got, p.In+"/"+p.Name)
	}
	sort.Strings(got)
	if len(got) != len(want) {
		t.Errorf("ParamsFor(GET,/a): want %v, got %v", want, got)
	}
}
