package analysis

// C03 violation 2 - a complex body schema of a path-level ("shared operation") parameter is not named when the
// path item declares no operation.
//
// Broken sentence: "After a successful full flatten (neither Minimal nor Expand), no object-with-properties,
// allOf composition or tuple remains inline anywhere except as the body of a top-level definition".
//
// Input: a single valid Swagger 2.0 document; the path item "/a" only declares `parameters` (allowed by the
// Swagger 2.0 schema: every method of a path item is optional), with a body parameter holding an inline object.
// The analyzer does visit this position (analyzer.go analyzeOperations(): key "#/paths/~1a/parameters/0/schema"),
// and nameInlinedSchemas() does classify it as complex. Default full flatten succeeds.
//
// Cause: flatten_name.go namesForParam(): for a shared operation parameter, one name is built per operation found
// under the path (`for k, v := range operations { if strings.HasPrefix(k, pref.String()) ...`). With no operation
// under the path (or when all of them have been dropped, see violation 1), no name at all is produced, and
// InlineSchemaNamer.Name() returns nil without moving the schema: there is no fallback name for this case
// (contrast with the `default:` branch of namesFromKey which names "non-standard" locations after their key).

import (
	"encoding/json"
	"testing"

	"github.com/go-openapi/spec"
)

func TestViolation2_PathLevelBodyParamWithoutOperation(t *testing.T) {
	const doc = `{
	  "swagger":"2.0","info":{"title":"x","version":"1"},
	  "paths":{
	    "/a":{"parameters":[{"name":"b","in":"body",
	       "schema":{"type":"object","properties":{"a":{"type":"string"}}}}]}
	  }
	}`

	var sw spec.Swagger
	if err := json.Unmarshal([]byte(doc), &sw); err != nil {
		t.Fatal(err)
	}

	if err := Flatten(FlattenOpts{Spec: New(&sw), BasePath: "fixtures/none.json"}); err != nil {
		t.Fatalf("flatten is expected to succeed: %v", err)
	}

	sch := sw.Paths.Paths["/a"].Parameters[0].Schema
	if sch == nil {
		t.Fatal("schema lost")
	}
	if sch.Ref.String() == "" && len(sch.Properties) > 0 {
		b, _ := json.Marshal(sch)
		t.Errorf("C03 violated: after a successful full flatten, #/paths/~1a/parameters/0/schema still holds an inline object with properties: %s (definitions: %d)",
			b, len(sw.Definitions))
	}
}
