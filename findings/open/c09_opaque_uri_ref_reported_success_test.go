package analysis

// C09 violation 2: a $ref to a document designated by an opaque URI ("urn:x:y", "foo:bar", "mailto:x@y"), which can
// never be loaded, makes Flatten return nil.
//
// Broken sentence: "If a referenced document cannot be loaded or a $ref cannot be resolved (and ContinueOnError is
// off), Flatten returns an error rather than reporting success."
//
// Inside the quantifier: the spec model loads the root (spec.NewRef("urn:x:y") succeeds), W+ admits "dangling $refs",
// all six option sets {Minimal, full, Expand} x {RemoveUnused} are affected for each of the four positions below;
// no excluded character or configuration is involved.
//
// What happens instead of an error:
//   - response schema {"$ref":"urn:x:y"}: after step 1 the document holds {"$ref":""} (the reference has vanished, the
//     schema has become "any"); under Expand the whole root document is inlined as the schema;
//   - parameter / response / path item {"$ref":"urn:x:y"}: silently replaced by an empty object ("parameters":[{}]);
//   - a property of a definition {"$ref":"urn:x:y"} (Minimal/full): the WHOLE root document is imported as a new
//     definition "oaiGen".
//
// Cause: such a spec.Ref has no path and no fragment (url.URL{Scheme, Opaque}) and none of the Has* flags set.
// Flatten's only guard, checkLocalRefs (flatten.go:248-270), skips every ref which is not HasFragmentOnly, relying on
// the import step to fail on unloadable documents. But expand() (flatten.go:184-192) calls spec.ExpandSpec, which
// normalizes this ref to the base document itself (empty path) and denormalizes it to "" without error, so that the
// ref is gone before importExternalReferences (flatten.go:462) could try to load it; for refs left in definitions,
// spec.ResolveRefWithBase (flatten.go:394) resolves it to the root document itself. Nothing in Flatten verifies that
// a non local ref went through an actual document load.

import (
	"encoding/json"
	"os"
	"path/filepath"
	"testing"

	"github.com/go-openapi/spec"
)

func TestViolation2_OpaqueURIRefReportsSuccess(t *testing.T) {
	const head = `"swagger":"2.0","info":{"title":"t","version":"1"}`
	cases := map[string]string{
		"response schema $ref": `{` + head + `,"paths":{"/x":{"get":{"responses":{"200":{"description":"ok","schema":{"$ref":"urn:x:y"}}}}}},
			"definitions":{"a":{"type":"object","properties":{"p":{"type":"string"}}}}}`,
		"parameter $ref": `{` + head + `,"paths":{"/x":{"get":{"parameters":[{"$ref":"urn:x:y"}],"responses":{"200":{"description":"ok"}}}}}}`,
		"response $ref":  `{` + head + `,"paths":{"/x":{"get":{"responses":{"200":{"$ref":"urn:x:y"}}}}}}`,
		"path item $ref": `{` + head + `,"paths":{"/x":{"$ref":"urn:x:y"}}}`,
	}

	for name, root := range cases {
		for _, o := range []struct {
			name                          string
			minimal, expand, removeUnused bool
		}{
			{"minimal", true, false, false},
			{"minimal+removeUnused", true, false, true},
			{"full", false, false, false},
			{"full+removeUnused", false, false, true},
			{"expand", false, true, false},
			{"expand+removeUnused", false, true, true},
		} {
			dir := t.TempDir()
			rootPath := filepath.Join(dir, "root.json")
			if err := os.WriteFile(rootPath, []byte(root), 0o600); err != nil {
				t.Fatal(err)
			}
			var sw spec.Swagger
			if err := json.Unmarshal([]byte(root), &sw); err != nil {
				t.Fatalf("the spec model cannot load the root: %v", err)
			}

			err := Flatten(FlattenOpts{
				Spec: New(&sw), BasePath: rootPath,
				Minimal: o.minimal, Expand: o.expand, RemoveUnused: o.removeUnused,
			})
			if err == nil {
				b, _ := json.Marshal(sw)
				t.Errorf("%s [%s]: document urn:x:y cannot be loaded, but Flatten returned nil. Result:\n  %.600s", name, o.name, b)
			}
		}
	}
}
