package analysis

// VIOLATION 4 of C09 ("Flatten fails safe: errors, never crashes, hangs or silent half-results").
//
// Broken sentence: "If a referenced document cannot be loaded or a $ref cannot be resolved (and ContinueOnError is off),
// Flatten returns an error rather than reporting success."
//
// What happens: the auxiliary document contains a dangling local $ref, "#/definitions/a%23b" (there is no definition
// "a#b" in that document, nor anywhere else). With Minimal or full flattening (RemoveUnused on or off), Flatten returns
// nil and the result silently uses the schema of the unrelated definition "a" instead. With Expand=true the same bundle
// yields an error ("object has no key \"a#b\"").
//
// Why the input is inside the quantifier: a root document plus one auxiliary document in a nested directory; the root
// refers to a top-level definition of the auxiliary document with a relative cross-file $ref, which resolves; the
// auxiliary document does not refer back to the root; the only anomaly is one dangling $ref in the auxiliary document
// (W+: "dangling $refs"; the focus of the property: unresolvable $refs "nested, in auxiliary documents"), and the
// missing name "a#b" is built on the admitted name alphabet (which contains '#'; in a $ref it is written %23).
//
// Cause: internal/flatten/normalize/normalize.go, RebaseRef (called from importNewRef, flatten.go:403-413, to rebase
// the local $refs of an imported schema on the document they come from): it first runs url.PathUnescape on the whole
// $ref, which turns "%23" back into '#', then does strings.Split(ref, "#") and only keeps parts[1]: the JSON pointer is
// cut at the '#' of the name, "#/definitions/a%23b" becomes "<aux>#/definitions/a", which happens to exist.
// (The same truncation silently mis-resolves *valid* references to names containing '#', which is an equivalence
// issue rather than a C09 one.)

import (
	"encoding/json"
	"os"
	"path/filepath"
	"testing"

	"github.com/go-openapi/spec"
)

func TestViolation4_DanglingRefInAuxiliaryDocumentReportedAsSuccess(t *testing.T) {
	const (
		root = `{"swagger":"2.0","info":{"title":"t","version":"1"},
 "paths":{"/p":{"get":{"operationId":"op","responses":{"200":{"description":"ok","schema":{"$ref":"#/definitions/A"}}}}}},
 "definitions":{"A":{"$ref":"sub/aux.json#/definitions/X"}}}`
		aux = `{"definitions":{
  "X":{"type":"object","properties":{"p":{"$ref":"#/definitions/a%23b"}}},
  "a":{"type":"string"}}}`
	)

	// sanity check of the premise: the $ref of X.p does not resolve in the auxiliary document
	var auxDoc interface{}
	if err := json.Unmarshal([]byte(aux), &auxDoc); err != nil {
		t.Fatal(err)
	}
	dangling := spec.MustCreateRef("#/definitions/a%23b")
	if _, _, err := dangling.GetPointer().Get(auxDoc); err == nil {
		t.Fatalf("premise broken: %s resolves", dangling.String())
	}

	dir := t.TempDir()
	if err := os.MkdirAll(filepath.Join(dir, "sub"), 0o755); err != nil {
		t.Fatal(err)
	}
	if err := os.WriteFile(filepath.Join(dir, "root.json"), []byte(root), 0o600); err != nil {
		t.Fatal(err)
	}
	if err := os.WriteFile(filepath.Join(dir, "sub", "aux.json"), []byte(aux), 0o600); err != nil {
		t.Fatal(err)
	}

	for _, minimal := range []bool{true, false} {
		for _, removeUnused := range []bool{false, true} {
			var sw spec.Swagger
			if err := json.Unmarshal([]byte(root), &sw); err != nil {
				t.Fatal(err)
			}

			err := Flatten(FlattenOpts{
				Spec: New(&sw), BasePath: filepath.Join(dir, "root.json"), Minimal: minimal, RemoveUnused: removeUnused,
			})
			if err == nil {
				out, _ := json.Marshal(sw.Definitions)
				t.Errorf("C09 violated [minimal=%t removeUnused=%t]: Flatten reported success although sub/aux.json contains an unresolvable $ref; definitions: %s",
					minimal, removeUnused, out)
			}
		}
	}
}
