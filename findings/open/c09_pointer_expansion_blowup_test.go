package analysis

import (
	"encoding/json"
	"fmt"
	"strings"
	"testing"
	"time"

	"github.com/go-openapi/spec"
)

// Violation of C09, sentence: "Flatten [...] terminate [...]: they never panic, overflow the stack or loop
// forever" (observed, as the property prescribes, with a "wall-clock timeout per call").
//
// NOTE: strictly speaking this is not an endless loop but an exponential blow-up (running time multiplied by
// about 80 for every 2 more properties, see the measures below): the call would eventually end. With k=10
// (a 640 bytes document) the extrapolated running time is a matter of days: for every practical purpose,
// Flatten hangs on a tiny valid document. Whether the property's "loop forever" covers this is left to the
// reader; the wall-clock observation it prescribes cannot tell the difference.
//
// Input (single document, every $ref resolves): a shared body parameter P whose schema is an object with k
// properties, each of them being "the same as the whole body", expressed as an anonymous JSON pointer to the
// schema of the shared parameter:
//
//	parameters.P.schema = {type: object, properties: {p0: {$ref: "#/parameters/P/schema"}, ..., p9: {...}}}
//
// "An anonymous JSON pointer [...] to the schema of a shared parameter/response" is in W under Minimal
// flattening without RemoveUnused, which is the option set used here; that the pointer sits inside its own
// target is the W+ case "pointers nested in pointer targets".
//
// Measured on the unchanged code (Minimal): k=2: 10ms (output 1.3kB), k=4: 0.7s (12kB), k=6: 56s (100kB),
// k=8: > 2 min. Whenever it ends, Flatten reports success and the result still holds (many more) anonymous
// pointers "#/parameters/P/schema".
//
// Cause: namePointers (flatten.go:742-817) plans the replacement of every such pointer, then calls
// flattenAnonPointer (flatten.go:819-900). Since the target is in a shared parameter
// (parts.IsSharedParam(), flatten.go:869), no definition is created: the pointer is expanded in place with
// replace.UpdateRefWithSchema(key, v.Schema) (flatten.go:894), where v.Schema has just been re-resolved
// (flatten.go:784-794) as the *current* content of "#/parameters/P/schema". The first k keys are inside P
// itself: every step replaces one pointer in P by a full copy of P, pointers included, so that P doubles k
// times. On top of that, every step scans all the $refs of the (growing) document, resolving each of them with
// spec.ResolveRefWithBase, i.e. a JSON round trip of the (growing) target (flatten.go:838-852,
// replace.go:468). Nothing bounds this growth, and the recursion is never reported as an error (compare with
// the cyclic chains detected by replace.DeepestRef).
func TestViolation3_FlattenHangsOnRecursivePointerIntoSharedParameter(t *testing.T) {
	const (
		k       = 10
		timeout = 30 * time.Second
	)

	props := make([]string, 0, k)
	for i := 0; i < k; i++ {
		props = append(props, fmt.Sprintf(`"p%d":{"$ref":"#/parameters/P/schema"}`, i))
	}
	doc := `{"swagger":"2.0","info":{"title":"t","version":"1"},
  "paths":{"/shared":{"post":{"parameters":[{"$ref":"#/parameters/P"}],"responses":{"200":{"description":"ok"}}}}},
  "parameters":{"P":{"name":"b","in":"body","schema":{"type":"object","properties":{` + strings.Join(props, ",") + `}}}}}`

	var sw spec.Swagger
	if err := json.Unmarshal([]byte(doc), &sw); err != nil {
		t.Fatalf("the spec model must load the document: %v", err)
	}

	done := make(chan error, 1)
	go func() {
		done <- Flatten(FlattenOpts{Spec: New(&sw), BasePath: "root.json", Minimal: true})
	}()

	select {
	case err := <-done:
		t.Logf("Flatten returned: err=%v", err)
	case <-time.After(timeout):
		t.Fatalf("C09 violated: Flatten did not return within %s on a %d bytes document (recursive pointer into a shared parameter, k=%d)",
			timeout, len(doc), k)
	}
}
