package analysis

import (
	"encoding/json"
	"os"
	"os/exec"
	"path/filepath"
	"runtime/debug"
	"strings"
	"testing"

	"github.com/go-openapi/spec"
)

// VIOLATION 2 of C09 ("Flatten fails safe").
//
// Sentence broken: "Flatten, New and Schema terminate and either return normally or return an error: they never panic,
// overflow the stack or loop forever".  Flatten dies with "fatal error: stack overflow" (not recoverable: the whole
// process is killed) on a perfectly valid, resolvable two-document bundle.
//
// Input (inside the quantifier: W+ = "... arbitrary name collisions ..., schemas recursive only through
// items/additionalProperties"; no fault injected; every $ref resolves; any flattening mode, here Minimal):
//
//	root.json : definitions.thing (a local object) and a response schema {"$ref":"aux.json#/definitions/thing"}
//	aux.json  : definitions.thing = {"type":"object","additionalProperties":{"$ref":"#/definitions/thing"}}   (a map of itself;
//	            the same happens with {"type":"array","items":{"$ref":"#/definitions/thing"}})
//
// Cause:
//   - importNewRef (flatten.go:395-426) imports the remote schema as "thingOAIGen" because the name "thing" is taken;
//     schutils.Save stores a SHALLOW copy (*schema) in Definitions while the same *spec.Schema is kept in newRefs[..].schema,
//     so both share the *SchemaOrBool / *SchemaOrArray sub-objects.
//   - stripOAIGen (flatten.go:556-586) collects the "parents" of "#/definitions/thingOAIGen": the response schema AND the
//     definition's own recursive reference "#/definitions/thingOAIGen/additionalProperties".
//   - stripOAIGenForRef (flatten.go:612-620) picks the topmost parent (sortref.TopmostFirst: fewest path segments), which is
//     the self-reference located INSIDE the OAIGen definition, and calls replace.UpdateRefWithSchema(.., pr[0], r.schema).
//     replace.go:321-331 then executes "*refable.Schema = *sch" where refable.Schema == sch.AdditionalProperties.Schema:
//     the schema is copied into its own child, which creates a cyclic in-memory structure
//     (s.AdditionalProperties.Schema == s, with no $ref in between).
//   - flatten.go:692-693 then calls Schema() on r.schema: schema.go:175-205 inferMap (resp. 207-237 inferArray) recurses on
//     AdditionalProperties.Schema (resp. Items.Schema). The visitedRefs guard (schema.go:109-116) only covers recursion through
//     a $ref, so the recursion never ends => stack overflow.
//     (The OAIGen definition is also deleted at flatten.go:658 although the other parent is rewritten to point into it.)
func TestViolation2_SelfRecursiveRemoteWithNameCollision(t *testing.T) {
	const childEnv = "C09_VIOLATION2_CHILD"

	if dir := os.Getenv(childEnv); dir != "" {
		// child process: run Flatten for real
		debug.SetMaxStack(64 << 20) // fail fast; with the default limit (1GB) the outcome is the same, only slower
		root := filepath.Join(dir, "root.json")
		b, err := os.ReadFile(root)
		if err != nil {
			t.Fatal(err)
		}
		var sw spec.Swagger
		if err := json.Unmarshal(b, &sw); err != nil {
			t.Fatal(err)
		}
		err = Flatten(FlattenOpts{Spec: New(&sw), BasePath: root, Minimal: true})
		t.Logf("CHILD-TERMINATED-NORMALLY err=%v", err)

		return
	}

	for name, aux := range map[string]string{
		"map-of-itself":   `{"definitions":{"thing":{"type":"object","additionalProperties":{"$ref":"#/definitions/thing"}}}}`,
		"array-of-itself": `{"definitions":{"thing":{"type":"array","items":{"$ref":"#/definitions/thing"}}}}`,
	} {
		aux := aux
		t.Run(name, func(t *testing.T) {
			dir := t.TempDir()
			rootDoc := `{"swagger":"2.0","info":{"title":"x","version":"1"},
			 "paths":{"/x":{"get":{"responses":{"200":{"description":"ok","schema":{"$ref":"aux.json#/definitions/thing"}}}}}},
			 "definitions":{"thing":{"type":"object","properties":{"local":{"type":"string"}}}}}`
			if err := os.WriteFile(filepath.Join(dir, "root.json"), []byte(rootDoc), 0o600); err != nil {
				t.Fatal(err)
			}
			if err := os.WriteFile(filepath.Join(dir, "aux.json"), []byte(aux), 0o600); err != nil {
				t.Fatal(err)
			}

			cmd := exec.Command(os.Args[0], "-test.run=^TestViolation2_SelfRecursiveRemoteWithNameCollision$", "-test.v")
			cmd.Env = append(os.Environ(), childEnv+"="+dir)
			out, err := cmd.CombinedOutput()
			txt := string(out)

			switch {
			case strings.Contains(txt, "stack overflow"):
				t.Errorf("Flatten overflowed the stack (process killed: %v). First lines:\n%s", err, firstLinesV2(txt, 6))
			case err != nil || !strings.Contains(txt, "CHILD-TERMINATED-NORMALLY"):
				t.Errorf("Flatten crashed the process: %v\n%s", err, firstLinesV2(txt, 20))
			default:
				t.Logf("ok: %s", firstLinesV2(txt, 5))
			}
		})
	}
}

func firstLinesV2(s string, n int) string {
	lines := strings.Split(s, "\n")
	if len(lines) > n {
		lines = lines[:n]
	}

	return strings.Join(lines, "\n")
}
