package analysis

import (
	"encoding/json"
	"testing"

	"github.com/go-openapi/spec"
)

// F9 (C03 / C09 navigation): the rewrite primitives address the parent container with the last segment of the key
// still JSON-pointer-escaped ("a~1b"), so for a property or definition whose name contains '/' or '~' they create a
// stray entry instead of replacing the schema: the complex schema stays inline and a bogus property appears.
func TestFinding_F9_EscapedNameCreatesStrayEntry(t *testing.T) {
	for _, name := range []string{"a/b", "a~b"} {
		var sw spec.Swagger
		doc := `{"swagger":"2.0","info":{"title":"t","version":"1"},"paths":{},
		 "definitions":{"y":{"type":"object","properties":{"` + name + `":{"type":"object","properties":{"q":{"type":"string"}}}}}}}`
		if err := json.Unmarshal([]byte(doc), &sw); err != nil {
			t.Fatal(err)
		}
		if err := Flatten(FlattenOpts{Spec: New(&sw), BasePath: "/tmp/doc.json"}); err != nil {
			t.Logf("name %q: Flatten returned %v", name, err)
			continue
		}
		props := sw.Definitions["y"].Properties
		if len(props) != 1 {
			keys := []string{}
			for k := range props {
				keys = append(keys, k)
			}
			t.Errorf("name %q: definition y should still have exactly one property, got %v", name, keys)
		}
		if p, ok := props[name]; !ok || p.Ref.String() == "" {
			t.Errorf("name %q: the complex inline schema was not replaced by a $ref (still inline: %v)", name, ok && p.Ref.String() == "")
		}
	}
}
