package analysis

// F15 (C09): Flatten crashed (nil dereference in normalize.Path, then a panic in MustCreateRef) when an auxiliary
// document has a file name with a %, written %25 in the $ref: the URL-unescaped location is not a valid URL.

import (
	"encoding/json"
	"os"
	"path/filepath"
	"runtime/debug"
	"testing"

	"github.com/go-openapi/spec"
)

func TestFinding_F15_PercentInAuxiliaryFileName(t *testing.T) {
	dir := t.TempDir()
	aux := `{"definitions":{"x":{"type":"object","properties":{"q":{"$ref":"#/definitions/z"}}},"z":{"type":"string"}}}`
	if err := os.WriteFile(filepath.Join(dir, "a%zz.json"), []byte(aux), 0o600); err != nil {
		t.Fatal(err)
	}
	root := `{"swagger":"2.0","info":{"title":"t","version":"1"},"paths":{},
	 "definitions":{"y":{"$ref":"a%25zz.json#/definitions/x"}}}`
	rootPath := filepath.Join(dir, "root.json")
	if err := os.WriteFile(rootPath, []byte(root), 0o600); err != nil {
		t.Fatal(err)
	}
	var sw spec.Swagger
	if err := json.Unmarshal([]byte(root), &sw); err != nil {
		t.Fatal(err)
	}
	defer func() {
		if r := recover(); r != nil {
			t.Errorf("Flatten panicked: %v\n%s", r, debug.Stack())
		}
	}()
	err := Flatten(FlattenOpts{Spec: New(&sw), BasePath: rootPath, Minimal: true})
	t.Logf("Flatten returned %v", err)
}
