package analysis

// F7 (C03): uniqifyName can return a name equal, up to letter case, to an existing definition name: the OAIGen
// numbering loop looks up the candidate with an exact map lookup although the first test is case-insensitive.

import (
	"strings"
	"testing"

	"github.com/go-openapi/spec"
)

func TestFinding_F7_UniqifyNameCaseInsensitive(t *testing.T) {
	defs := spec.Definitions{"petowner": spec.Schema{}, "PetOwnerOAIGen": spec.Schema{}}
	got, _ := uniqifyName(defs, "petOwner")
	for k := range defs {
		if strings.EqualFold(k, got) {
			t.Fatalf("uniqifyName returned %q, which equals the existing definition %q up to case", got, k)
		}
	}
}
