package analysis

// VIOLATION 1 of C09 ("Flatten fails safe: errors, never crashes, hangs or silent half-results").
//
// Broken sentence: "On any document the spec model can load, Flatten, New and Schema terminate and either return
// normally or return an error: they never panic, overflow the stack or loop forever."
//
// What happens: Flatten never returns. It builds a *cyclic in-memory schema* and then recurses over it without bound:
//   - bundles "W-no-collision-map" / "W-no-collision-array" (a map / an array of itself): the schema's
//     AdditionalProperties.Schema (resp. Items.Schema) points back to a copy of the schema holding the same pointer;
//     stripOAIGenForRef then calls Schema() on it (flatten.go:725-729), inferMap/inferArray (schema.go) recurse
//     (no $ref is involved, so the visitedRefs guard does not help) and the process dies within a couple of seconds
//     with the unrecoverable "fatal error: stack overflow";
//   - bundles "W-no-collision" / "Wplus-collisions" (recursion through a property): the Properties map contains a
//     schema value whose own Properties field is that very map; the re-analysis at the end of stripOAIGen
//     (Spec.reload -> analyzeSchema, analyzer.go) recurses without bound, with ever longer keys: Flatten hangs while
//     stack and heap grow until the process is killed.
// The outcome depends on Go map iteration order, so the test repeats the call a few times; on the unchanged code
// it fails within the first few attempts (typically the first or second).
//
// Why the input is inside the quantifier: the three "W-..." bundles are in W proper: a root document plus ONE auxiliary
// document in a nested directory, every $ref resolves, schema $refs only target top-level definitions (relative
// cross-file from the root, local inside the auxiliary document, mutually recursive, "including arrays/maps of
// themselves"), the auxiliary document does not refer back to the root, there is no name collision at all, and the two
// definition names "{}" and "[]" are made of braces and brackets, which the name alphabet admits.
// Options: every option set but Expand (Minimal or full, RemoveUnused on or off).
// "Wplus-collisions" is the same shape with plain names "A"/"T" that collide with root definitions "a"/"t"
// (W+: arbitrary name collisions).
//
// Cause (flatten.go, stripOAIGen / stripOAIGenForRef):
//   - both imported definitions get an "OAIGen" name (here because their mangled name is empty, see uniqifyName in
//     flatten_name.go; in bundle 2 because of the collisions): "oaiGen" = {properties:{b:{$ref oaiGenOAIGen}}} and
//     "oaiGenOAIGen" = {$ref oaiGen};
//   - when the entry for "oaiGen" is stripped first, its schema is re-inlined in its first parent "#/definitions/Use"
//     (shallow copy: the Properties map is shared), the other parent "#/definitions/oaiGenOAIGen" gets
//     `pa.schema = r.schema` (the same *spec.Schema), and the parents of that entry are rewritten from
//     "#/definitions/oaiGen/properties/b" to "#/definitions/Use/properties/b";
//   - when the entry for "oaiGenOAIGen" is stripped next, refersToItself() only compares the parents with r.path
//     ("#/definitions/oaiGenOAIGen") and does not see that the schema to inline now *lives at* "#/definitions/Use":
//     replace.UpdateRefWithSchema writes `container["b"] = *sch` into the Properties map of sch itself.
//     (for the map / array variants: `*refable.Schema = *sch` with refable == sch.AdditionalProperties / sch.Items);
//   - Schema(r.schema) at the end of stripOAIGenForRef, or opts.Spec.reload() at the end of stripOAIGen, then never
//     terminates.

import (
	"encoding/json"
	"fmt"
	"os"
	"os/exec"
	"path/filepath"
	"testing"
	"time"

	"github.com/go-openapi/spec"
)

const violation1Env = "C09_VIOLATION1_CHILD"

func violation1Bundles() map[string]map[string]string {
	const head = `"swagger":"2.0","info":{"title":"t","version":"1"},` +
		`"paths":{"/p":{"post":{"operationId":"op","responses":{"200":{"description":"ok","schema":{"$ref":"#/definitions/Use"}}}}}}`

	return map[string]map[string]string{
		"W-no-collision": {
			"root.json":    `{` + head + `,"definitions":{"Use":{"$ref":"sub/aux.json#/definitions/{}"}}}`,
			"sub/aux.json": `{"definitions":{"{}":{"type":"object","properties":{"b":{"$ref":"#/definitions/[]"}}},"[]":{"$ref":"#/definitions/{}"}}}`,
		},
		"W-no-collision-map": {
			"root.json":    `{` + head + `,"definitions":{"Use":{"$ref":"sub/aux.json#/definitions/{}"}}}`,
			"sub/aux.json": `{"definitions":{"{}":{"type":"object","additionalProperties":{"$ref":"#/definitions/[]"}},"[]":{"$ref":"#/definitions/{}"}}}`,
		},
		"W-no-collision-array": {
			"root.json":    `{` + head + `,"definitions":{"Use":{"$ref":"sub/aux.json#/definitions/{}"}}}`,
			"sub/aux.json": `{"definitions":{"{}":{"type":"array","items":{"$ref":"#/definitions/[]"}},"[]":{"$ref":"#/definitions/{}"}}}`,
		},
		"Wplus-collisions": {
			"root.json":    `{` + head + `,"definitions":{"Use":{"$ref":"sub/aux.json#/definitions/A"},"a":{"type":"string"},"t":{"type":"integer"}}}`,
			"sub/aux.json": `{"definitions":{"A":{"type":"object","properties":{"b":{"$ref":"#/definitions/T"}}},"T":{"$ref":"#/definitions/A"}}}`,
		},
	}
}

// TestViolation1_Child does the actual work, in a child process (a hanging Flatten cannot be cancelled).
func TestViolation1_Child(t *testing.T) {
	dir := os.Getenv(violation1Env)
	if dir == "" {
		t.Skip("helper for TestViolation1_FlattenHangsOrOverflowsStack")
	}

	type optSet struct {
		name                  string
		minimal, removeUnused bool
	}

	for attempt := 0; attempt < 25; attempt++ {
		for _, o := range []optSet{{"minimal", true, false}, {"minimal+removeUnused", true, true}, {"full", false, false}, {"full+removeUnused", false, true}} {
			root := filepath.Join(dir, "root.json")
			data, err := os.ReadFile(root)
			if err != nil {
				t.Fatal(err)
			}
			var sw spec.Swagger
			if err := json.Unmarshal(data, &sw); err != nil {
				t.Fatal(err)
			}

			done := make(chan error, 1)
			go func() {
				done <- Flatten(FlattenOpts{Spec: New(&sw), BasePath: root, Minimal: o.minimal, RemoveUnused: o.removeUnused})
			}()

			select {
			case err := <-done:
				_ = err // returning normally or with an error are both fine for C09
			case <-time.After(10 * time.Second):
				fmt.Printf("HANG: attempt %d, options %s: Flatten did not return within 10s\n", attempt, o.name)
				os.Exit(3)
			}
		}
	}
}

func TestViolation1_FlattenHangsOrOverflowsStack(t *testing.T) {
	for name, files := range violation1Bundles() {
		name, files := name, files
		t.Run(name, func(t *testing.T) {
			dir := t.TempDir()
			for fn, content := range files {
				p := filepath.Join(dir, filepath.FromSlash(fn))
				if err := os.MkdirAll(filepath.Dir(p), 0o755); err != nil {
					t.Fatal(err)
				}
				if err := os.WriteFile(p, []byte(content), 0o600); err != nil {
					t.Fatal(err)
				}
			}

			cmd := exec.Command(os.Args[0], "-test.run=^TestViolation1_Child$", "-test.count=1")
			cmd.Env = append(os.Environ(), violation1Env+"="+dir)
			watchdog := time.AfterFunc(5*time.Minute, func() { _ = cmd.Process.Kill() })
			defer watchdog.Stop()
			out, err := cmd.CombinedOutput()
			if err != nil {
				if len(out) > 1500 {
					out = append(out[:1500:1500], []byte("\n[...]")...)
				}
				t.Fatalf("C09 violated: Flatten must terminate (normally or with an error), but the child process failed: %v\n%s", err, out)
			}
		})
	}
}
