package analysis

import (
	"encoding/json"
	"fmt"
	"runtime/debug"
	"testing"

	"github.com/go-openapi/spec"
)

// Violation of C09, sentence: "On any document the spec model can load, Flatten [...] terminate and either
// return normally or return an error: they never panic".
//
// Input (single document, every $ref resolves, no cycle, no odd name): definition M has a property "foo"
// which is an array of inline objects; the inline object has a property "p" whose type is, by an anonymous
// JSON pointer, "the same as my own additionalProperties":
//
//	M.properties.foo = { type: array, items: { type: object,
//	                       properties: { p: { $ref: "#/definitions/M/properties/foo/items/additionalProperties" } },
//	                       additionalProperties: { type: string } } }
//
// This is inside the quantifier: W+ admits "anonymous pointers to arbitrary schema positions incl. operations
// and nested inline schemas, pointers nested in pointer targets"; option set = full flattening
// (Minimal=false, Expand=false), with or without RemoveUnused. Minimal and Expand both succeed on this input.
//
// Outcome on the unchanged code: Flatten panics with
//
//	value method github.com/go-openapi/spec.SchemaOrBool.MarshalJSON called using nil *SchemaOrBool pointer
//
// Cause: nameInlinedSchemas (flatten.go:280-312) works depth-first. It first moves the complex inline object at
// ".../foo/items" to a new definition "mFooItems" (InlineSchemaNamer.Name, flatten_name.go:26-106), leaving
// {$ref: "#/definitions/mFooItems"} in place. Name only rewrites the $refs that resolve exactly to the moved
// location, not those pointing *below* it, so the moved schema still carries
// "$ref: #/definitions/M/properties/foo/items/additionalProperties", which is now stale: ".../foo/items" is a
// bare $ref schema, hence its AdditionalProperties is a nil *spec.SchemaOrBool (a typed nil).
// The next key of the same loop is the parent array ".../foo": Schema() -> inferArray (schema.go:219-249) ->
// Schema(items = {$ref mFooItems}) -> inferFromRef (schema.go:109-153). The absent-part guard there
// (schema.go:118-128) only inspects the schema's own $ref, then calls spec.ExpandSchema (schema.go:132), which
// follows the nested stale pointer, gets the typed nil and marshals it => panic, not an error.
// The same happens with ".../additionalItems" (tuple) and ".../not" (nil *spec.Schema), and when the construct
// sits in an operation response/parameter instead of a definition.
func TestViolation1_FullFlattenPanicsOnPointerBelowMovedSchema(t *testing.T) {
	const doc = `{
  "swagger": "2.0",
  "info": {"title": "t", "version": "1"},
  "paths": {},
  "definitions": {
    "M": {
      "type": "object",
      "properties": {
        "foo": {
          "type": "array",
          "items": {
            "type": "object",
            "properties": {
              "p": {"$ref": "#/definitions/M/properties/foo/items/additionalProperties"}
            },
            "additionalProperties": {"type": "string"}
          }
        }
      }
    }
  }
}`

	for _, removeUnused := range []bool{false, true} {
		var sw spec.Swagger
		if err := json.Unmarshal([]byte(doc), &sw); err != nil {
			t.Fatalf("the spec model must load the document: %v", err)
		}

		// sanity: the pointer does resolve in the input document
		ref := sw.Definitions["M"].Properties["foo"].Items.Schema.Properties["p"].Ref
		if v, _, err := ref.GetPointer().Get(&sw); err != nil || v == nil {
			t.Fatalf("input is expected to be well-formed: %v", err)
		}

		var (
			err      error
			panicked interface{}
			stack    string
		)
		func() {
			defer func() {
				if p := recover(); p != nil {
					panicked = p
					stack = string(debug.Stack())
				}
			}()
			err = Flatten(FlattenOpts{Spec: New(&sw), BasePath: "root.json", Minimal: false, Expand: false, RemoveUnused: removeUnused})
		}()

		if panicked != nil {
			if len(stack) > 3000 {
				stack = stack[:3000]
			}
			t.Errorf("C09 violated (RemoveUnused=%t): Flatten panicked instead of returning: %v\n%s", removeUnused, panicked, stack)

			continue
		}
		t.Logf("RemoveUnused=%t: no panic, err=%v", removeUnused, fmt.Sprint(err))
	}
}
