package analysis

import (
	"encoding/json"
	"testing"

	"github.com/go-openapi/spec"
)

// C15 violation 3: a $ref whose target is itself a $ref is returned as an unresolved placeholder.
//
// Broken sentences: "with every $ref to a shared parameter replaced by that parameter" and
// "no variant returns an unresolved placeholder" (and, for the dangling/cyclic chains, "the Safe
// variants report it through the callback ... and the plain variants panic").
//
// Four operations on /a:
//   GET    -> #/parameters/alias, and alias is {"$ref":"#/parameters/real"}   (valid chain)
//   PUT    -> #/paths/~1other/parameters/0, which is {"$ref":"#/parameters/real"} (valid chain through
//             a path-level parameter of another path; every single hop is an ordinary, resolvable ref)
//   DELETE -> #/parameters/dangalias, which is {"$ref":"#/parameters/nowhere"} (dangling chain)
//   POST   -> #/paths/~1a/post/parameters/0, i.e. itself (cycle: can never be resolved)
// In all four cases every variant returns one spec.Parameter with empty In/Name and a non-empty Ref,
// stored under the key "#", the callback is never invoked and the plain variants do not panic.
//
// Inside the quantifier: loadable document, operation-level parameters by $ref (valid / dangling),
// existing method x path, unique non-empty ids.
//
// Cause: analyzer.go paramsAsMap lines 686-705: the pointer is dereferenced exactly once; the object
// found is a spec.Parameter (type assertion ok), so it is stored as is - its own Ref is never looked at.
func TestC15Violation3_RefToRefReturnsPlaceholder(t *testing.T) {
	const doc = `{"swagger":"2.0","info":{"title":"x","version":"1"},
	"parameters":{
	   "alias":{"$ref":"#/parameters/real"},
	   "real":{"name":"real","in":"query","type":"string"},
	   "dangalias":{"$ref":"#/parameters/nowhere"}},
	"paths":{
	 "/other":{"parameters":[{"$ref":"#/parameters/real"}],
	           "get":{"operationId":"getOther","responses":{"200":{"description":"ok"}}}},
	 "/a":{
	  "get":{"operationId":"getA","parameters":[{"$ref":"#/parameters/alias"}],"responses":{"200":{"description":"ok"}}},
	  "put":{"operationId":"putA","parameters":[{"$ref":"#/paths/~1other/parameters/0"}],"responses":{"200":{"description":"ok"}}},
	  "delete":{"operationId":"delA","parameters":[{"$ref":"#/parameters/dangalias"}],"responses":{"200":{"description":"ok"}}},
	  "post":{"operationId":"postA","parameters":[{"$ref":"#/paths/~1a/post/parameters/0"}],"responses":{"200":{"description":"ok"}}}
	 }}}`
	sw := new(spec.Swagger)
	if err := json.Unmarshal([]byte(doc), sw); err != nil {
		t.Fatal(err)
	}
	an := New(sw)

	check := func(label string, params []spec.Parameter) {
		for _, p := range params {
			if p.Ref.String() != "" {
				t.Errorf("%s: unresolved placeholder returned: in=%q name=%q $ref=%q", label, p.In, p.Name, p.Ref.String())
			}
		}
	}
	values := func(m map[string]spec.Parameter) (out []spec.Parameter) {
		for _, p := range m {
			out = append(out, p)
		}
		return
	}
	skip := func(spec.Parameter, error) bool { return true }

	for _, c := range []struct{ method, id string }{{"GET", "getA"}, {"PUT", "putA"}, {"DELETE", "delA"}, {"POST", "postA"}} {
		func() {
			defer func() { _ = recover() }() // a panic of the plain variants would be acceptable for DELETE/POST
			check("ParamsFor "+c.method, values(an.ParamsFor(c.method, "/a")))
		}()
		func() {
			defer func() { _ = recover() }()
			check("ParametersFor "+c.id, an.ParametersFor(c.id))
		}()
		check("SafeParamsFor "+c.method, values(an.SafeParamsFor(c.method, "/a", skip)))
		check("SafeParametersFor "+c.id, an.SafeParametersFor(c.id, skip))
	}
}
