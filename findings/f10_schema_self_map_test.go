package analysis

// F10 (C20, C09): Schema() recurses without bound on a map (or array) of itself:
//   definitions: { m: { type: object, additionalProperties: { $ref: "#/definitions/m" } } }
// The process dies with "goroutine stack exceeds 1000000000-byte limit" (not recoverable), so this test
// crashes the test binary instead of failing normally.

import (
	"encoding/json"
	"testing"

	"github.com/go-openapi/spec"
)

func TestFinding_F10_SchemaSelfContainingMap(t *testing.T) {
	var sw spec.Swagger
	if err := json.Unmarshal([]byte(`{"swagger":"2.0","paths":{},"definitions":{"m":{"type":"object","additionalProperties":{"$ref":"#/definitions/m"}}}}`), &sw); err != nil {
		t.Fatal(err)
	}
	sch := sw.Definitions["m"]
	_, err := Schema(SchemaOpts{Schema: &sch, Root: &sw})
	if err != nil {
		t.Fatalf("unexpected error: %v", err)
	}
}
