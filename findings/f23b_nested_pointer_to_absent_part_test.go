package analysis

import (
	"encoding/json"
	"testing"

	"github.com/go-openapi/spec"
)

// Violation of C09, sentence: "On any document the spec model can load, Flatten, New and Schema terminate and
// either return normally or return an error: they never panic".
//
// Input: a loadable single document with one dangling $ref ("dangling $refs" are in W+): A is an array of
// strings and has no "not" clause, and B.properties.x is {"$ref": "#/definitions/A/not"}.
//
// Outcome on the unchanged code:
//   - Schema(SchemaOpts{Schema: {$ref: "#/definitions/B"}, Root: doc}) panics with
//     "value method github.com/go-openapi/spec.Schema.MarshalJSON called using nil *Schema pointer";
//   - so does the analysis of the inline array C = {type: array, items: {$ref: "#/definitions/B"}};
//   - same thing (nil *SchemaOrBool) when the dangling pointer is ".../additionalProperties" or
//     ".../additionalItems".
//
// (Flatten itself returns an error on this document, because checkLocalRefs rejects the dangling $ref up
// front; Schema is a public entry point of its own and is named by the property. The very same mechanism
// makes Flatten panic in violation_1, where the pointer is valid in the input and goes stale during
// flattening.)
//
// Cause: inferFromRef (schema.go:109-153) guards against a JSON pointer resolving to an absent optional part
// (a typed nil pointer) for the $ref of the analyzed schema only (schema.go:118-128). It then hands over to
// spec.ExpandSchema (schema.go:132), which expands the target recursively: any further $ref met on the way
// which designates an absent part (*spec.Schema, *spec.SchemaOrBool, *spec.SchemaOrArray typed nil) is
// marshaled by the resolver => panic in a value-receiver MarshalJSON, instead of ErrResolveSchema.
func TestViolation5_SchemaPanicsOnNestedPointerToAbsentPart(t *testing.T) {
	const doc = `{"swagger":"2.0","info":{"title":"t","version":"1"},"paths":{},
  "definitions":{
    "A":{"type":"array","items":{"type":"string"}},
    "B":{"type":"object","properties":{"x":{"$ref":"#/definitions/A/not"}}},
    "C":{"type":"array","items":{"$ref":"#/definitions/B"}},
    "D":{"type":"object","properties":{"x":{"$ref":"#/definitions/A/additionalProperties"}}}
  }}`

	var sw spec.Swagger
	if err := json.Unmarshal([]byte(doc), &sw); err != nil {
		t.Fatalf("the spec model must load the document: %v", err)
	}

	_ = New(&sw) // New is fine

	c := sw.Definitions["C"]
	for name, sch := range map[string]*spec.Schema{
		"$ref to B": spec.RefSchema("#/definitions/B"),
		"inline C":  &c,
		"$ref to D": spec.RefSchema("#/definitions/D"),
	} {
		func() {
			defer func() {
				if p := recover(); p != nil {
					t.Errorf("C09 violated: Schema(%s) panicked instead of returning an error: %v", name, p)
				}
			}()

			_, err := Schema(SchemaOpts{Schema: sch, Root: &sw, BasePath: "root.json"})
			t.Logf("Schema(%s) returned, err=%v", name, err)
		}()
	}
}
