package analysis

import (
	"encoding/json"
	"testing"

	"github.com/go-openapi/spec"
)

func TestFinding_F10b_FlattenInlineMapOfSelfMap(t *testing.T) {
	var sw spec.Swagger
	doc := `{"swagger":"2.0","info":{"title":"t","version":"1"},"paths":{},
	 "definitions":{"m":{"type":"object","additionalProperties":{"$ref":"#/definitions/m"}},
	   "y":{"type":"object","properties":{"p":{"type":"object","additionalProperties":{"$ref":"#/definitions/m"}}}}}}`
	if err := json.Unmarshal([]byte(doc), &sw); err != nil {
		t.Fatal(err)
	}
	err := Flatten(FlattenOpts{Spec: New(&sw), BasePath: "/tmp/doc.json"})
	t.Logf("Flatten returned %v", err)
}
