package analysis

// F6 (C13): the enum of a header of a *default* response is not indexed (status-code responses are).

import (
	"encoding/json"
	"testing"

	"github.com/go-openapi/spec"
)

func TestFinding_F6_DefaultResponseHeaderEnum(t *testing.T) {
	var sw spec.Swagger
	doc := `{"swagger":"2.0","paths":{"/a":{"get":{"responses":{
	  "default":{"description":"d","headers":{"X-Kind":{"type":"string","enum":["a","b"]}}},
	  "200":{"description":"ok","headers":{"X-Kind":{"type":"string","enum":["a","b"]}}}}}}}}`
	if err := json.Unmarshal([]byte(doc), &sw); err != nil {
		t.Fatal(err)
	}
	an := New(&sw)
	he := an.HeaderEnums()
	if _, ok := he["#/paths/~1a/get/responses/200/headers/X-Kind"]; !ok {
		t.Fatalf("status-code response header enum missing: %v", he)
	}
	if _, ok := he["#/paths/~1a/get/responses/default/headers/X-Kind"]; !ok {
		t.Fatalf("default response header enum is not indexed; HeaderEnums() = %v", he)
	}
}
