package analysis

// C06 violation 4 (needs option KeepNames=true; full flatten, i.e. Minimal=false).
//
// Sentence broken: "no remaining $ref dangles ... This holds whatever characters definition names contain."
// (and "the operations still mean the same": the content of the inline schema is lost from the document.)
//
// Input: a used definition whose name needs JSON-pointer escaping - "/a" (leading '/') or "v~1" (a '~' followed by
// '1': the three literal characters v, ~, 1) - and which has an inline object property. The operation refers to it
// with the correctly escaped $ref ("#/definitions/~1a", "#/definitions/v~01"). Such names are explicitly inside the
// quantifier ("definition names that need JSON-pointer escaping ('/', '~')"). Flatten returns nil.
//
// Cause:
//   - flatten.go nameInlinedSchemas() -> flatten_name.go InlineSchemaNamer.Name(): the name of the new definition is
//     built from the DECODED key parts (sortref.KeyParts unescapes "~1a" to "/a"), giving "/a inner" (resp.
//     "v~1 inner"); with KeepNames it is not mangled. The definition is stored under that raw name by schutils.Save,
//     but the replacing $ref is built as spec.MustCreateRef(path.Join("#/definitions", newName)) - no
//     jsonpointer.Escape, and path.Join even cleans the doubled '/': "#/definitions/a inner" (resp.
//     "#/definitions/v~1 inner", which as a JSON pointer designates "v/ inner").
//     The $ref and the definition key disagree. This happens after checkLocalRefs (step 4), so nothing notices.
//   - flatten.go removeUnusedSinglePass(): definitionName() decodes the $ref to "a inner" (resp. "v/ inner"), which is
//     not the stored key, so the freshly created definition "/a inner" (resp. "v~1 inner") is considered unused and
//     deleted. Result: a dangling $ref and the inline schema is gone for good.

import (
	"encoding/json"
	"fmt"
	"strings"
	"testing"

	"github.com/go-openapi/jsonpointer"
	"github.com/go-openapi/spec"
)

func TestC06Violation4_NewDefinitionRefNotPointerEscaped(t *testing.T) {
	for _, name := range []string{"/a", "v~1"} {
		name := name
		t.Run(name, func(t *testing.T) {
			escaped := jsonpointer.Escape(name) // "~1a", "v~01"
			doc := fmt.Sprintf(`{
  "swagger": "2.0",
  "info": {"title": "x", "version": "1"},
  "paths": {"/p": {"get": {"operationId": "getP", "responses": {"200": {"description": "ok", "schema": {"$ref": "#/definitions/%s"}}}}}},
  "definitions": {
    %q: {"type": "object", "properties": {"inner": {"type": "object", "properties": {"q": {"type": "string"}}}}}
  }
}`, escaped, name)
			var sw spec.Swagger
			if err := json.Unmarshal([]byte(doc), &sw); err != nil {
				t.Fatal(err)
			}

			err := Flatten(FlattenOpts{Spec: New(&sw), BasePath: "/tmp/c06v4/root.json", Minimal: false, KeepNames: true, RemoveUnused: true})
			if err != nil {
				t.Skipf("Flatten failed, property is vacuous: %v", err)
			}

			out, _ := json.Marshal(sw.Definitions)

			def, ok := sw.Definitions[name]
			if !ok {
				t.Fatalf("C06 violated: used definition %q removed; definitions: %s", name, out)
			}
			inner := def.Properties["inner"]
			if inner.Ref.String() == "" {
				return // left inline: fine
			}

			// the $ref must resolve against the output document
			ref := inner.Ref
			if !ref.HasFragmentOnly {
				t.Fatalf("unexpected non-local $ref %q", ref.String())
			}
			tokens := ref.GetPointer().DecodedTokens()
			if len(tokens) != 2 || tokens[0] != "definitions" {
				t.Fatalf("unexpected $ref %q", ref.String())
			}
			if _, ok := sw.Definitions[tokens[1]]; !ok {
				t.Fatalf("C06 violated: $ref %q (definition %q) dangles after a successful Flatten with RemoveUnused; remaining definitions: %s",
					ref.String(), tokens[1], strings.TrimSpace(string(out)))
			}
		})
	}
}
