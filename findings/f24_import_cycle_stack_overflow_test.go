package analysis

import (
	"bytes"
	"encoding/json"
	"os"
	"os/exec"
	"path/filepath"
	"strings"
	"testing"

	"github.com/go-openapi/spec"
)

// Violation of C09, sentence: "Flatten [...] terminate and either return normally or return an error: they never
// panic, overflow the stack or loop forever."
//
// Input: a well-formed 3-document bundle in which every $ref resolves; no anonymous pointer, no reference back
// to the root, plain ASCII names:
//
//	root.json      definitions: X: string, Y: string, P: {$ref: "sub/aux.json#/definitions/x"}
//	sub/aux.json   definitions: x: {type: object, additionalProperties: {$ref: "aux2.json#/definitions/y"}}
//	sub/aux2.json  definitions: y: {$ref: "aux.json#/definitions/x"}
//
// i.e. P is a map of itself, the recursion going through two auxiliary documents ("schemas recursive only
// through items/additionalProperties"), and the two imported definitions x and y collide case-insensitively
// with the root definitions X and Y. In W, colliding imported definitions are required to be $ref-free; here
// they hold a $ref, which is the W+ extension "arbitrary name collisions". Option set: Minimal (also happens
// with Minimal+RemoveUnused; full and Expand were not seen to crash).
//
// Outcome on the unchanged code: the process dies with
//
//	runtime: goroutine stack exceeds 1000000000-byte limit
//	fatal error: stack overflow
//
// (not recoverable). It depends on the iteration order of the flattenContext.newRefs map in stripOAIGen, so
// that a single call crashes about every other time: the child process below calls Flatten up to 40 times on
// fresh copies of the bundle.
//
// Cause: the imports are named xOAIGen and yOAIGen. In stripOAIGen (flatten.go:576-606), when xOAIGen is
// visited first, stripOAIGenForRef (flatten.go:645-736)
//   - re-inlines its schema S into the first parent "#/definitions/P", redirects the other parent
//     "#/definitions/yOAIGen" to P and, since that parent is an OAIGen entry, aliases the schemas:
//     `pa.schema = r.schema` (flatten.go:679-685), so that entry yOAIGen now holds the very *spec.Schema S;
//   - rewrites the parent of yOAIGen from "#/definitions/xOAIGen/additionalProperties" to
//     "#/definitions/P/additionalProperties" (flatten.go:693-717).
// When yOAIGen is then visited, refersToItself (flatten.go:611-619) only compares parent paths with
// "#/definitions/yOAIGen" and lets it through, and replace.UpdateRefWithSchema (flatten.go:652,
// replace.go:327-331: `*refable.Schema = *sch`) copies S into S.AdditionalProperties.Schema: the in-memory
// schema now contains itself (S.AdditionalProperties.Schema.AdditionalProperties == S.AdditionalProperties).
// Right after, Schema(r.schema) (flatten.go:726) recurses through inferMap (schema.go:187-217), which only
// guards against recursion through $ref (visitedRefs), without bound: stack overflow. (Were it to survive that
// call, the following Spec.reload() would recurse the same way in analyzeSchema, analyzer.go:498-500.)
func TestViolation2_StackOverflowOnCollidingRecursiveImports(t *testing.T) {
	const (
		root = `{"swagger":"2.0","info":{"title":"t","version":"1"},"paths":{},
  "definitions":{"X":{"type":"string"},"Y":{"type":"string"},"P":{"$ref":"sub/aux.json#/definitions/x"}}}`
		aux  = `{"definitions":{"x":{"type":"object","additionalProperties":{"$ref":"aux2.json#/definitions/y"}}}}`
		aux2 = `{"definitions":{"y":{"$ref":"aux.json#/definitions/x"}}}`
	)

	if os.Getenv("C09_VIOLATION2_CHILD") == "1" {
		// child process: run Flatten a number of times
		for i := 0; i < 40; i++ {
			dir, err := os.MkdirTemp("", "c09v2")
			if err != nil {
				t.Fatal(err)
			}
			if err = os.MkdirAll(filepath.Join(dir, "sub"), 0o755); err != nil {
				t.Fatal(err)
			}
			for name, content := range map[string]string{"root.json": root, "sub/aux.json": aux, "sub/aux2.json": aux2} {
				if err = os.WriteFile(filepath.Join(dir, filepath.FromSlash(name)), []byte(content), 0o600); err != nil {
					t.Fatal(err)
				}
			}

			var sw spec.Swagger
			if err = json.Unmarshal([]byte(root), &sw); err != nil {
				t.Fatal(err)
			}

			err = Flatten(FlattenOpts{Spec: New(&sw), BasePath: filepath.Join(dir, "root.json"), Minimal: true})
			if err != nil {
				// not expected: the bundle is well-formed. Anyway, an error would comply with C09.
				t.Logf("attempt %d: Flatten returned an error: %v", i, err)
			}
			_ = os.RemoveAll(dir)
		}

		return
	}

	cmd := exec.Command(os.Args[0], "-test.run=^TestViolation2_StackOverflowOnCollidingRecursiveImports$", "-test.v")
	cmd.Env = append(os.Environ(), "C09_VIOLATION2_CHILD=1")
	var out bytes.Buffer
	cmd.Stdout = &out
	cmd.Stderr = &out
	err := cmd.Run()

	output := out.String()
	head := output
	if len(head) > 1500 {
		head = head[:1500]
	}

	if strings.Contains(output, "stack overflow") {
		t.Fatalf("C09 violated: Flatten overflowed the stack and killed the process (%v):\n%s", err, head)
	}
	if err != nil {
		t.Fatalf("child process failed (%v):\n%s", err, head)
	}
	t.Logf("40 calls to Flatten returned without crash")
}
