package analysis

import (
	"encoding/json"
	"testing"

	"github.com/go-openapi/spec"
)

// C15 violation 2: the callback's "stop" answer is not honoured across the two parameter lists.
//
// Broken sentence: "When a parameter $ref cannot be resolved ..., the Safe variants report it through
// the callback (and skip or stop as the callback says)".
// The path item's first parameter is a dangling $ref; the callback answers false (= stop, see the doc of
// ErrorOnParamFunc: "If the callback function returns false, the calling function should bail").
// The Safe variants nevertheless go on: they resolve the operation's own parameters, add them to the
// result, and even invoke the callback a second time for the operation's dangling $ref.
//
// Inside the quantifier: loadable document with paths, path-level and operation-level parameters,
// inline and by dangling $ref, existing method x path / unique non-empty operation id.
//
// Cause: analyzer.go paramsAsMap (670-707): on a false answer it only `break`s out of its own loop and
// returns nothing to its caller; SafeParamsFor (795-798) and gatherParams in SafeParametersFor (726-730)
// call paramsAsMap(pi.Parameters) then unconditionally paramsAsMap(op.Parameters).
func TestC15Violation2_StopAtPathLevelIsNotAStop(t *testing.T) {
	const doc = `{"swagger":"2.0","info":{"title":"x","version":"1"},
	"paths":{"/a":{
	  "parameters":[{"$ref":"#/parameters/missing1"},{"name":"p2","in":"query","type":"string"}],
	  "get":{"operationId":"getA","parameters":[
	     {"name":"o1","in":"query","type":"string"},
	     {"$ref":"#/parameters/missing2"},
	     {"name":"o2","in":"query","type":"string"}
	  ],"responses":{"200":{"description":"ok"}}}}}}`
	sw := new(spec.Swagger)
	if err := json.Unmarshal([]byte(doc), sw); err != nil {
		t.Fatal(err)
	}
	an := New(sw)

	var seen []string
	stop := func(p spec.Parameter, _ error) bool {
		seen = append(seen, p.Ref.String())
		return false // stop
	}

	res := an.SafeParamsFor("GET", "/a", stop)
	if len(seen) != 1 {
		t.Errorf("SafeParamsFor: callback answered stop on %q but was called again: %v", seen[0], seen)
	}
	if len(res) != 0 {
		t.Errorf("SafeParamsFor: parameters were still gathered after the callback said stop: %v", res)
	}

	seen = nil
	lst := an.SafeParametersFor("getA", stop)
	if len(seen) != 1 {
		t.Errorf("SafeParametersFor: callback answered stop on %q but was called again: %v", seen[0], seen)
	}
	if len(lst) != 0 {
		t.Errorf("SafeParametersFor: parameters were still gathered after the callback said stop: %v", lst)
	}
}
