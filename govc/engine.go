package main

import (
	"regexp"
	"sync"
	"fmt"
	"go/ast"
	"go/token"
	"go/types"
	"os"
	"path/filepath"
	"sort"
	"strings"

	"golang.org/x/tools/go/packages"
	"golang.org/x/tools/go/ssa"
	"golang.org/x/tools/go/ssa/ssautil"
)

type Engine struct {
	declMu   sync.Mutex // guards the declaration analysis cache during concurrent query generation
	root     string
	prog     *ssa.Program
	fset     *token.FileSet
	pkgs     []*packages.Package
	spkgs    map[string]*ssa.Package
	tpkgs    map[string]*types.Package
	byName   map[string][]*types.Package
	modPath  string
	S        *Sorts
	cs       *ContractSet
	files    []string
	contracts map[*ssa.Function][]*FuncContract
	externs   map[string]*FuncContract // types.Func.FullName() -> contract
	funs      map[string]*SpecFunInfo
	heapSorts map[string]string
	usedExterns map[string]string // name -> how it was modelled
	usedAxioms  map[string]bool
	syntaxOf    map[*ssa.Function]*ast.FuncDecl
	bindErrs    []string
}

type SpecFunInfo struct {
	def       *SpecFun
	pkg       *types.Package
	ptypes    []types.Type
	rtype     types.Type
	reads     []string
	calls     []string
	recursive bool
	smt       string
	declared  bool
}

func loadEngine(root string, preludes []string) (*Engine, error) {
	cfg := &packages.Config{Mode: packages.LoadAllSyntax | packages.NeedModule, Dir: root, BuildFlags: []string{"-tags=verif"}, Tests: false}
	pkgs, err := packages.Load(cfg, "./...")
	if err != nil {
		return nil, err
	}
	var errs []string
	packages.Visit(pkgs, nil, func(p *packages.Package) {
		for _, e := range p.Errors {
			errs = append(errs, e.Error())
		}
	})
	if len(errs) > 0 {
		return nil, fmt.Errorf("package errors:\n%s", strings.Join(errs, "\n"))
	}
	prog, _ := ssautil.AllPackages(pkgs, ssa.NaiveForm|ssa.GlobalDebug)
	prog.Build()
	e := &Engine{root: root, prog: prog, pkgs: pkgs, spkgs: map[string]*ssa.Package{}, tpkgs: map[string]*types.Package{}, byName: map[string][]*types.Package{},
		S: newSorts(), contracts: map[*ssa.Function][]*FuncContract{}, externs: map[string]*FuncContract{}, funs: map[string]*SpecFunInfo{},
		heapSorts: map[string]string{}, usedExterns: map[string]string{}, usedAxioms: map[string]bool{}, syntaxOf: map[*ssa.Function]*ast.FuncDecl{}}
	if len(pkgs) > 0 {
		e.fset = pkgs[0].Fset
	}
	for _, sp := range prog.AllPackages() {
		e.spkgs[sp.Pkg.Path()] = sp
		e.tpkgs[sp.Pkg.Path()] = sp.Pkg
		e.byName[sp.Pkg.Name()] = append(e.byName[sp.Pkg.Name()], sp.Pkg)
	}
	pkgDirs := map[string]string{}
	for _, p := range pkgs {
		if len(p.GoFiles) > 0 {
			pkgDirs[filepath.Dir(p.GoFiles[0])] = p.PkgPath
		}
		if p.Module != nil && e.modPath == "" {
			e.modPath = p.Module.Path
		}
	}
	cs, files, err := loadContracts(root, preludes, pkgDirs)
	if err != nil {
		return nil, err
	}
	e.cs, e.files = cs, files
	if err := e.bind(); err != nil {
		return nil, err
	}
	return e, nil
}

func (e *Engine) findPkg(name string, from *types.Package) *types.Package {
	if p, ok := e.tpkgs[name]; ok {
		return p
	}
	if from != nil {
		if from.Name() == name {
			return from
		}
		for _, imp := range from.Imports() {
			if imp.Name() == name {
				return imp
			}
		}
	}
	// well-known aliases used in the repository
	alias := map[string]string{"slashpath": "path"}
	if a, ok := alias[name]; ok {
		return e.tpkgs[a]
	}
	cands := e.byName[name]
	if len(cands) == 1 {
		return cands[0]
	}
	// prefer stdlib (no dot in first path element)
	for _, c := range cands {
		if !strings.Contains(strings.Split(c.Path(), "/")[0], ".") {
			return c
		}
	}
	return nil
}

func (e *Engine) inModule(fn *ssa.Function) bool {
	if fn.Pkg == nil {
		if fn.Parent() != nil {
			return e.inModule(fn.Parent())
		}
		return false
	}
	p := fn.Pkg.Pkg.Path()
	return p == e.modPath || strings.HasPrefix(p, e.modPath+"/")
}

func (e *Engine) lookupFunc(pkgPath, recv, name string) *ssa.Function {
	sp := e.spkgs[pkgPath]
	if sp == nil {
		return nil
	}
	if recv == "" {
		return sp.Func(name)
	}
	ptr := strings.HasPrefix(recv, "*")
	tn := strings.TrimPrefix(recv, "*")
	o := sp.Pkg.Scope().Lookup(tn)
	if o == nil {
		return nil
	}
	var t types.Type = o.Type()
	if ptr {
		t = types.NewPointer(t)
	}
	return e.prog.LookupMethod(t, sp.Pkg, name)
}

func (e *Engine) bind() error {
	for _, fc := range e.cs.Funcs {
		if fc.Extern {
			p := e.findPkg(fc.PkgHint, nil)
			if p == nil {
				return fmt.Errorf("%s:%d: extern: unknown package %q", fc.File, fc.Line, fc.PkgHint)
			}
			var fo *types.Func
			if fc.RecvType == "" {
				fo, _ = p.Scope().Lookup(fc.Name).(*types.Func)
			} else {
				tn := strings.TrimPrefix(fc.RecvType, "*")
				if o := p.Scope().Lookup(tn); o != nil {
					fo = lookupMethodAnyPkg(o.Type(), fc.Name)
					if fo == nil {
						if it, ok := o.Type().Underlying().(*types.Interface); ok {
							for i := 0; i < it.NumMethods(); i++ {
								if it.Method(i).Name() == fc.Name {
									fo = it.Method(i)
								}
							}
						}
					}
				}
			}
			if fo == nil {
				return fmt.Errorf("%s:%d: extern: cannot find %s", fc.File, fc.Line, fc.Header)
			}
			if fc.Aspect != "" && fc.Aspect != "main" {
				e.externs[fo.FullName()+"\x00"+fc.Aspect] = fc
			} else {
				e.externs[fo.FullName()] = fc
			}
			continue
		}
		fn := e.lookupFunc(fc.PkgPath, fc.RecvType, fc.Name)
		if fn == nil {
			e.bindErrs = append(e.bindErrs, fmt.Sprintf("%s:%d: contract target not found: %s", fc.File, fc.Line, fc.Header))
			continue
		}
		e.contracts[fn] = append(e.contracts[fn], fc)
	}
	// syntax of functions (for loop ordinals)
	for _, p := range e.pkgs {
		sp := e.spkgs[p.PkgPath]
		if sp == nil {
			continue
		}
		for _, f := range p.Syntax {
			for _, d := range f.Decls {
				fd, ok := d.(*ast.FuncDecl)
				if !ok || fd.Body == nil {
					continue
				}
				if obj, ok := p.TypesInfo.Defs[fd.Name].(*types.Func); ok {
					if fn := e.prog.FuncValue(obj); fn != nil {
						e.syntaxOf[fn] = fd
					}
				}
			}
		}
	}
	return e.setupSpecFuns()
}

func (e *Engine) contractFor(fn *ssa.Function, aspect string) *FuncContract {
	cs := e.contracts[fn]
	for _, c := range cs {
		if c.Aspect == aspect {
			return c
		}
	}
	for _, c := range cs {
		if c.Aspect == "main" {
			return c
		}
	}
	return nil
}

// ---------------------------------------------------------------- spec functions

func collectCalls(e Expr, out map[string]bool) {
	switch e := e.(type) {
	case *ECall:
		if e.Recv == nil {
			out[e.Fun] = true
		} else {
			collectCalls(e.Recv, out)
		}
		for _, a := range e.Args {
			collectCalls(a, out)
		}
	case *EUnary:
		collectCalls(e.X, out)
	case *EBinary:
		collectCalls(e.X, out)
		collectCalls(e.Y, out)
	case *EField:
		collectCalls(e.X, out)
	case *EIndex:
		collectCalls(e.X, out)
		collectCalls(e.I, out)
	case *EOld:
		collectCalls(e.X, out)
	case *EQuant:
		for _, x := range []Expr{e.Dom, e.Set, e.Lo, e.Hi, e.Body} {
			if x != nil {
				collectCalls(x, out)
			}
		}
	case *EIn:
		collectCalls(e.K, out)
		if e.Dom != nil {
			collectCalls(e.Dom, out)
		}
		if e.Set != nil {
			collectCalls(e.Set, out)
		}
	case *EWith:
		collectCalls(e.X, out)
		for _, v := range e.Vals {
			collectCalls(v, out)
		}
	case *EIte:
		collectCalls(e.C, out)
		collectCalls(e.A, out)
		collectCalls(e.B, out)
	case *ETypeIs:
		collectCalls(e.X, out)
	case *ECast:
		collectCalls(e.X, out)
	}
}

func (e *Engine) newVC(name string) *VC {
	return &VC{eng: e, name: name, counter: map[string]int{}, heapSorts: e.heapSorts, factSeen: map[string]bool{}, eqHeaps: os.Getenv("GOVC_MACRO_HEAPS") == ""}
}

func (e *Engine) setupSpecFuns() (err error) {
	defer func() {
		if r := recover(); r != nil {
			if te, ok := r.(trErr); ok {
				err = fmt.Errorf("spec function: %s", string(te))
				return
			}
			panic(r)
		}
	}()
	for _, sf := range e.cs.Funs {
		if _, dup := e.funs[sf.Name]; dup {
			return fmt.Errorf("%s:%d: duplicate spec function %s", sf.File, sf.Line, sf.Name)
		}
		info := &SpecFunInfo{def: sf, smt: "sf_" + sanitize(sf.Name)}
		if sf.PkgPath != "" {
			info.pkg = e.tpkgs[sf.PkgPath]
		} else {
			info.pkg = e.tpkgs[e.modPath]
		}
		e.funs[sf.Name] = info
	}
	dummy := e.newVC("specfuns")
	for _, name := range sortedKeys(e.funs) {
		info := e.funs[name]
		tc := &TrCtx{vc: dummy, pkg: info.pkg, vars: map[string]TVal{}, st: &State{param: true, ghosts: map[string]TVal{}}}
		func() {
			defer func() {
				if r := recover(); r != nil {
					if te, ok := r.(trErr); ok {
						panic(trErr(fmt.Sprintf("%s:%d: fun %s: %s", info.def.File, info.def.Line, name, string(te))))
					}
					panic(r)
				}
			}()
			for _, p := range info.def.Params {
				info.ptypes = append(info.ptypes, tc.resolveType(p.Type))
			}
			info.rtype = tc.resolveType(info.def.Result)
		}()
		if info.def.Body == nil && info.def.Reads != "" {
			ms, err := parseModifies(info.def.Reads)
			if err != nil {
				return fmt.Errorf("%s:%d: fun %s: reads: %v", info.def.File, info.def.Line, name, err)
			}
			ex := &Exec{vc: dummy, eng: e}
			_, whole := ex.resolveTargets(tc, ms)
			info.reads = sortedKeys(whole)
		}
		if info.def.Body != nil {
			cs := map[string]bool{}
			collectCalls(info.def.Body, cs)
			for c := range cs {
				if _, ok := e.funs[c]; ok {
					info.calls = append(info.calls, c)
				}
			}
			sort.Strings(info.calls)
		}
	}
	// recursion
	for name, info := range e.funs {
		seen := map[string]bool{}
		var walk func(n string)
		walk = func(n string) {
			for _, c := range e.funs[n].calls {
				if !seen[c] {
					seen[c] = true
					walk(c)
				}
			}
		}
		walk(name)
		info.recursive = seen[name]
	}
	// heap reads: fixpoint
	for iter := 0; iter < 10; iter++ {
		changed := false
		for _, name := range sortedKeys(e.funs) {
			info := e.funs[name]
			if info.def.Body == nil {
				continue
			}
			rec := map[string]bool{}
			e.translateSpecBody(dummy, info, rec)
			keys := sortedKeys(rec)
			if strings.Join(keys, ",") != strings.Join(info.reads, ",") {
				info.reads = keys
				changed = true
			}
		}
		if !changed {
			break
		}
	}
	// declare in dependency order
	done := map[string]bool{}
	var decl func(name string)
	decl = func(name string) {
		if done[name] {
			return
		}
		done[name] = true
		info := e.funs[name]
		for _, c := range info.calls {
			decl(c)
		}
		var params []string
		var psorts []string
		for _, k := range info.reads {
			params = append(params, fmt.Sprintf("(hp_%s %s)", k, e.heapSorts[k]))
			psorts = append(psorts, e.heapSorts[k])
		}
		for i, p := range info.def.Params {
			params = append(params, fmt.Sprintf("(p_%s %s)", p.Name, e.S.sortOf(info.ptypes[i])))
			psorts = append(psorts, e.S.sortOf(info.ptypes[i]))
		}
		rs := e.S.sortOf(info.rtype)
		if info.def.Body != nil && !info.recursive && info.def.Opaque {
			body := e.translateSpecBody(dummy, info, map[string]bool{})
			if e.contentForm(info, body, params, rs) {
				info.declared = true
				return
			}
			e.S.decls = append(e.S.decls, fmt.Sprintf("(declare-fun %s (%s) %s)", info.smt, strings.Join(psorts, " "), rs))
			if len(params) == 0 {
				e.S.decls = append(e.S.decls, fmt.Sprintf("(assert (= %s %s))", info.smt, body))
			} else {
				var names []string
				for _, k := range info.reads {
					names = append(names, "hp_"+k)
				}
				for _, p := range info.def.Params {
					names = append(names, "p_"+p.Name)
				}
				app := "(" + info.smt + " " + strings.Join(names, " ") + ")"
				e.S.decls = append(e.S.decls, fmt.Sprintf("(assert (forall (%s) (! (= %s %s) :pattern (%s))))", strings.Join(params, " "), app, body, app))
			}
		} else if info.def.Body != nil && !info.recursive {
			body := e.translateSpecBody(dummy, info, map[string]bool{})
			e.S.decls = append(e.S.decls, fmt.Sprintf("(define-fun %s (%s) %s %s)", info.smt, strings.Join(params, " "), rs, body))
		} else {
			e.S.decls = append(e.S.decls, fmt.Sprintf("(declare-fun %s (%s) %s)", info.smt, strings.Join(psorts, " "), rs))
		}
		info.declared = true
	}
	for _, name := range sortedKeys(e.funs) {
		decl(name)
	}
	return nil
}

func (e *Engine) translateSpecBody(vc *VC, info *SpecFunInfo, rec map[string]bool) string {
	st := &State{param: true, record: rec, ghosts: map[string]TVal{}, heaps: map[string]string{}}
	tc := &TrCtx{vc: vc, pkg: info.pkg, vars: map[string]TVal{}, st: st, noUnfold: 1}
	for i, p := range info.def.Params {
		tc.vars[p.Name] = TVal{"p_" + p.Name, info.ptypes[i]}
	}
	var out string
	func() {
		defer func() {
			if r := recover(); r != nil {
				if te, ok := r.(trErr); ok {
					panic(trErr(fmt.Sprintf("%s:%d: fun %s: %s", info.def.File, info.def.Line, info.def.Name, string(te))))
				}
				panic(r)
			}
		}()
		v := tc.tr(info.def.Body)
		v = tc.coerce(v, info.rtype)
		if e.S.sortOf(v.typ) != e.S.sortOf(info.rtype) {
			trFail("body has type %v, declared %v", v.typ, info.rtype)
		}
		out = v.t
	}()
	return out
}

func (e *Engine) applySpecFun(vc *VC, st *State, sf *SpecFunInfo, args []TVal) string {
	var parts []string
	for _, k := range sf.reads {
		parts = append(parts, vc.heap(st, k, e.heapSorts[k]))
	}
	for _, a := range args {
		parts = append(parts, a.t)
	}
	if len(parts) == 0 {
		return sf.smt
	}
	return "(" + sf.smt + " " + strings.Join(parts, " ") + ")"
}

// ---------------------------------------------------------------- pure externs

// pureApp models a call of a Go function as an uninterpreted function of its argument values.
// Pointer receivers are passed by the value they point to.
func (e *Engine) pureApp(vc *VC, st *State, fo *types.Func, recv *TVal, args []TVal) TVal {
	sig := fo.Type().(*types.Signature)
	var vpack *[]string
	if sig.Variadic() {
		// contract language: extra arguments form the variadic pack
		fixed := sig.Params().Len() - 1
		if len(args) >= fixed {
			et := sig.Params().At(fixed).Type().(*types.Slice).Elem()
			var els []string
			for _, a := range args[fixed:] {
				if types.IsInterface(et) && !types.IsInterface(a.typ) {
					els = append(els, e.S.box(a.typ, a.t))
				} else {
					els = append(els, a.t)
				}
			}
			vpack = &els
			args = args[:fixed]
		}
	}
	rs := e.pureAppN(vc, st, fo, recv, args, vpack)
	if len(rs) == 0 {
		trFail("function %s has no result", fo.FullName())
	}
	return rs[0]
}

func (e *Engine) pureAppN(vc *VC, st *State, fo *types.Func, recv *TVal, args []TVal, vpack *[]string) []TVal {
	sig := fo.Type().(*types.Signature)
	name := "ext_" + sanitize(fo.FullName())
	if vpack != nil {
		name = fmt.Sprintf("%s!v%d", name, len(*vpack))
	}
	var terms, sorts []string
	if recv != nil {
		rv := *recv
		if p, ok := isPtr(rv.typ); ok {
			if _, isStruct := p.Elem().Underlying().(*types.Struct); isStruct {
				rv = TVal{vc.loadPtr(st, rv.t, p.Elem()), p.Elem()}
			}
		}
		terms = append(terms, rv.t)
		sorts = append(sorts, e.S.sortOf(rv.typ))
	}
	for i, a := range args {
		// pure functions read pointer-to-struct arguments by value (like receivers)
		if p, ok := isPtr(a.typ); ok {
			if _, isStruct := p.Elem().Underlying().(*types.Struct); isStruct {
				a = TVal{vc.loadPtr(st, a.t, p.Elem()), p.Elem()}
				args[i] = a
			}
		}
		if i < sig.Params().Len() {
			pt := sig.Params().At(i).Type()
			if _, isP := isPtr(pt); isP {
				// declared pointer parameter, passed by value: keep the value as is
				terms = append(terms, a.t)
				sorts = append(sorts, e.S.sortOf(a.typ))
				continue
			}
			if types.IsInterface(pt) && !types.IsInterface(a.typ) && !isNilType(a.typ) {
				a = TVal{e.S.box(a.typ, a.t), pt}
			}
			if isNilType(a.typ) {
				a = TVal{e.S.zero(pt), pt}
			}
		}
		terms = append(terms, a.t)
		sorts = append(sorts, e.S.sortOf(a.typ))
	}
	if vpack != nil {
		es := e.S.sortOf(sig.Params().At(sig.Params().Len() - 1).Type().(*types.Slice).Elem())
		for _, t := range *vpack {
			terms = append(terms, t)
			sorts = append(sorts, es)
		}
	}
	var out []TVal
	for i := 0; i < sig.Results().Len(); i++ {
		rt := sig.Results().At(i).Type()
		fn := name
		if sig.Results().Len() > 1 {
			fn = fmt.Sprintf("%s!%d", name, i)
		}
		e.S.declareFun(fn, sorts, e.S.sortOf(rt))
		if len(terms) == 0 {
			out = append(out, TVal{fn, rt})
		} else {
			out = append(out, TVal{"(" + fn + " " + strings.Join(terms, " ") + ")", rt})
		}
	}
	if _, ok := e.usedExterns[fo.FullName()]; !ok {
		e.usedExterns[fo.FullName()] = "uninterpreted pure function of argument values"
	}
	return out
}

func (e *Engine) sprintfTerm(vc *VC, st *State, f TVal, args []TVal) string {
	fo := e.tpkgs["fmt"].Scope().Lookup("Sprintf").(*types.Func)
	return e.pureApp(vc, st, fo, nil, append([]TVal{f}, args...)).t
}

func (e *Engine) posOf(p token.Pos) string {
	if !p.IsValid() || e.fset == nil {
		return ""
	}
	ps := e.fset.Position(p)
	rel, err := filepath.Rel(e.root, ps.Filename)
	if err != nil {
		rel = ps.Filename
	}
	return fmt.Sprintf("%s:%d", rel, ps.Line)
}

func fatal(f string, a ...interface{}) {
	fmt.Fprintf(os.Stderr, "govc: "+f+"\n", a...)
	os.Exit(2)
}

// contentForm: an opaque spec function whose body reads the heaps only as `(select heap p)` for parameters p (the content
// of a map or cell designated by a parameter) is declared over these contents, and the heap-taking symbol becomes a
// macro over it. Framing is then congruence: a write elsewhere in the heap leaves (select heap p) and hence the value of
// the function unchanged, without unfolding the (quantified) definition in two states.
func (e *Engine) contentForm(info *SpecFunInfo, body string, params []string, rs string) bool {
	if len(info.reads) == 0 {
		return false
	}
	type cp struct{ name, sort, arg string }
	var cps []cp
	seen := map[string]bool{}
	nb := body
	for _, k := range info.reads {
		hs := e.heapSorts[k]
		if !strings.HasPrefix(hs, "(Array Int ") || !strings.HasSuffix(hs, ")") {
			return false
		}
		elem := hs[len("(Array Int ") : len(hs)-1]
		re := regexp.MustCompile(`\(select hp_` + regexp.QuoteMeta(k) + ` (p_[A-Za-z0-9_]+)\)`)
		nb = re.ReplaceAllStringFunc(nb, func(m string) string {
			x := re.FindStringSubmatch(m)[1]
			n := "c!" + k + "!" + x
			if !seen[n] {
				seen[n] = true
				cps = append(cps, cp{n, elem, m})
			}
			return n
		})
		// any other use of the heap (a read through a pointer found in the heap, a nested function taking the heap)
		if regexp.MustCompile(`(^|[ (])hp_` + regexp.QuoteMeta(k) + `($|[ )])`).MatchString(nb) {
			return false
		}
	}
	if len(cps) == 0 {
		return false
	}
	var cparams, csorts, cnames, cargs []string
	for _, c := range cps {
		cparams = append(cparams, fmt.Sprintf("(%s %s)", c.name, c.sort))
		csorts = append(csorts, c.sort)
		cnames = append(cnames, c.name)
		cargs = append(cargs, c.arg)
	}
	var pnames []string
	for i, p := range info.def.Params {
		cparams = append(cparams, fmt.Sprintf("(p_%s %s)", p.Name, e.S.sortOf(info.ptypes[i])))
		csorts = append(csorts, e.S.sortOf(info.ptypes[i]))
		pnames = append(pnames, "p_"+p.Name)
	}
	inner := info.smt + "!c"
	app := "(" + inner + " " + strings.Join(append(append([]string{}, cnames...), pnames...), " ") + ")"
	e.S.decls = append(e.S.decls,
		fmt.Sprintf("(declare-fun %s (%s) %s)", inner, strings.Join(csorts, " "), rs),
		fmt.Sprintf("(assert (forall (%s) (! (= %s %s) :pattern (%s))))", strings.Join(cparams, " "), app, nb, app),
		fmt.Sprintf("(define-fun %s (%s) %s (%s %s))", info.smt, strings.Join(params, " "), rs, inner, strings.Join(append(append([]string{}, cargs...), pnames...), " ")))
	return true
}
