package main

import "strings"

// sexprArgs splits "(head a b c)" into head and top-level arguments.
func sexprArgs(s string) (string, []string, bool) {
	s = strings.TrimSpace(s)
	if len(s) < 2 || s[0] != '(' || s[len(s)-1] != ')' {
		return "", nil, false
	}
	inner := s[1 : len(s)-1]
	var parts []string
	depth := 0
	start := -1
	for i := 0; i < len(inner); i++ {
		c := inner[i]
		switch c {
		case '(':
			if depth == 0 && start < 0 {
				start = i
			}
			depth++
		case ')':
			depth--
			if depth == 0 {
				parts = append(parts, inner[start:i+1])
				start = -1
			}
		case ' ', '\n', '\t':
			if depth == 0 && start >= 0 {
				parts = append(parts, inner[start:i])
				start = -1
			}
		default:
			if depth == 0 && start < 0 {
				start = i
			}
		}
	}
	if start >= 0 {
		parts = append(parts, inner[start:])
	}
	if len(parts) == 0 {
		return "", nil, false
	}
	return parts[0], parts[1:], true
}

// splitGoal breaks a goal into conjuncts, distributing over forall, implication and pattern annotations.
func splitGoal(g string, depth int) []string {
	if depth > 60 {
		return []string{g}
	}
	head, args, ok := sexprArgs(g)
	if !ok {
		return []string{g}
	}
	switch head {
	case "and":
		var out []string
		for _, a := range args {
			out = append(out, splitGoal(a, depth+1)...)
		}
		return out
	case "=>":
		if len(args) != 2 {
			return []string{g}
		}
		parts := splitGoal(args[1], depth+1)
		if len(parts) == 1 {
			return []string{g}
		}
		var out []string
		for _, p := range parts {
			out = append(out, "(=> "+args[0]+" "+p+")")
		}
		return out
	case "let":
		if len(args) != 2 {
			return []string{g}
		}
		parts := splitGoal(args[1], depth+1)
		if len(parts) == 1 {
			return []string{g}
		}
		var out []string
		for _, p := range parts {
			out = append(out, "(let "+args[0]+" "+p+")")
		}
		return out
	case "forall":
		if len(args) != 2 {
			return []string{g}
		}
		parts := splitGoal(args[1], depth+1)
		if len(parts) == 1 {
			return []string{g}
		}
		var out []string
		for _, p := range parts {
			out = append(out, "(forall "+args[0]+" "+p+")")
		}
		return out
	case "!":
		if len(args) < 1 {
			return []string{g}
		}
		parts := splitGoal(args[0], depth+1)
		if len(parts) == 1 {
			return []string{g}
		}
		var out []string
		for _, p := range parts {
			// patterns may mention terms absent from this conjunct; drop them and let the solver infer
			out = append(out, p)
		}
		return out
	}
	return []string{g}
}
