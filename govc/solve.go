package main

import (
	"strconv"
	"sync/atomic"
	"bytes"
	"context"
	"fmt"
	"os"
	"os/exec"
	"path/filepath"
	"strings"
	"sync"
	"time"
)

type SolverCfg struct {
	Names   []string // subset of z3, z3-new, cvc5
	Timeout time.Duration
	Seed    int
	WorkDir string
	Workers int
	FailFast bool // stop starting new obligations after the first undischarged one (corpus runs)
	KeepQueries bool
	Phase1  bool
}

func (e *Engine) queryText(o *Obligation, axioms []axFact, seed int, solver string) string {
	var b bytes.Buffer
	if solver == "cvc5" {
		b.WriteString("(set-logic ALL)\n")
	}
	if seed != 0 && solver != "cvc5" {
		fmt.Fprintf(&b, "(set-option :smt.random_seed %d)\n(set-option :sat.random_seed %d)\n", seed, seed)
	}
	// the body first (axioms, facts, goal), then only the declarations it uses
	var body bytes.Buffer
	for _, a := range axioms {
		if a.lemma && o.axLimit > 0 && a.idx >= o.axLimit {
			continue
		}
		if a.lemma && o.Kind == "lemma" && o.axLimit == 0 && a.idx >= 0 {
			continue
		}
		for _, l := range a.lines {
			body.WriteString(l + "\n")
		}
	}
	for _, it := range o.vc.items[:o.upto] {
		body.WriteString(it)
		body.WriteByte('\n')
	}
	if o.pc != "" && o.pc != "true" {
		fmt.Fprintf(&body, "(assert %s)\n", o.pc)
	}
	needed := map[string]bool{}
	smtTokens(body.String(), needed)
	smtTokens(o.goal, needed)
	e.declMu.Lock()
	decls := e.S.prunedDecls(needed)
	lits := e.S.distinctLits(needed)
	e.declMu.Unlock()
	for _, d := range decls {
		b.WriteString(d)
		b.WriteByte('\n')
	}
	if lits != "" {
		b.WriteString(lits + "\n")
	}
	b.Write(body.Bytes())
	fmt.Fprintf(&b, "(assert (not %s))\n(check-sat)\n", o.goal)
	return b.String()
}

// solverCmd: the time limit is a CPU-time limit (ulimit -t), so that a loaded machine does not turn a proof that
// takes a few seconds into a timeout; the solver's own wall-clock limit is three times larger and only a safety net.
func solverCmd(name, file string, timeout time.Duration, seed int) *exec.Cmd {
	secs := int(timeout.Seconds())
	if secs < 1 {
		secs = 1
	}
	wall := 3 * secs
	var line string
	switch name {
	case "z3":
		line = fmt.Sprintf("exec z3 -T:%d %q", wall, file)
	case "z3-new":
		line = fmt.Sprintf("exec z3-new -T:%d %q", wall, file)
	case "cvc5":
		line = fmt.Sprintf("exec cvc5 --tlimit=%d", wall*1000)
		if seed != 0 {
			line += fmt.Sprintf(" --seed=%d", seed)
		}
		line += fmt.Sprintf(" %q", file)
	default:
		panic("unknown solver " + name)
	}
	// memory: a solver that blows up on one query (seen on a mutated tree: several z3 processes of many GB each, the
	// kernel then killed the verifier itself) is stopped at 4 GB of address space and counts as undecided
	return exec.Command("sh", "-c", fmt.Sprintf("ulimit -t %d; ulimit -v 4194304; %s", secs+1, line))
}

// raceSem bounds the number of obligations raced on three solvers at once (keeps timings stable under load)
var raceSem = make(chan struct{}, 5)

// seedRetries counts re-runs of undecided obligations under other seeds (bounded per run).
var seedRetries int32

const maxSeedRetries = 12

type solveOut struct {
	solver string
	status string
	out    string
	secs   float64
}

func firstLine(s string) string {
	s = strings.TrimSpace(s)
	for strings.HasPrefix(s, "WARNING") {
		i := strings.IndexByte(s, '\n')
		if i < 0 {
			return ""
		}
		s = strings.TrimSpace(s[i+1:])
	}
	if i := strings.IndexByte(s, '\n'); i >= 0 {
		return strings.TrimSpace(s[:i])
	}
	return s
}

// failFast (must-fail corpus runs only): once an obligation has come back undischarged after the full sequence of
// attempts, the obligations not yet started are skipped; the run reports what it found and exits 1.
var failFastHit int32

func (e *Engine) solveOne(o *Obligation, axioms []axFact, cfg *SolverCfg, idx int) {
	if cfg.FailFast && atomic.LoadInt32(&failFastHit) != 0 {
		o.Status, o.Solver, o.Output = "skipped", "-", "not attempted: an earlier obligation of this fail-fast run was not discharged"
		return
	}
	if cfg.FailFast && cfg.Phase1 && !o.Cover {
		defer func() {
			if o.Status != "unsat" {
				atomic.StoreInt32(&failFastHit, 1)
			}
		}()
	}
	if cfg.Phase1 && !o.Cover {
		// cheap first attempt with one solver; the full race only for what it does not decide
		c1 := *cfg
		c1.Phase1 = false
		c1.Names = []string{"z3-new"}
		c1.Timeout = 3 * time.Second
		e.solveOne(o, axioms, &c1, idx)
		if o.Status == "unsat" {
			return
		}
		c2 := *cfg
		c2.Phase1 = false
		raceSem <- struct{}{}
		e.solveOne(o, axioms, &c2, idx)
		<-raceSem
		// an undecided obligation (timeout / unknown, never a model) is tried again under two other solver seeds
		// before it is reported: solver search is sensitive to incidental details of the query text. Bounded, so
		// that a tree on which many obligations fail is not slowed down.
		for _, ds := range []int{7919, 104729} {
			if o.Status == "unsat" || o.Status == "sat" || o.Status == "error" || cfg.FailFast {
				break
			}
			if atomic.AddInt32(&seedRetries, 1) > maxSeedRetries {
				break
			}
			c3 := c2
			c3.Seed = cfg.Seed + ds
			if c3.Timeout > 30*time.Second {
				c3.Timeout = 30 * time.Second
			}
			raceSem <- struct{}{}
			e.solveOne(o, axioms, &c3, idx)
			<-raceSem
			if o.Status == "unsat" {
				o.Solver += fmt.Sprintf(" (seed %d)", c3.Seed)
			}
		}
		return
	}
	names := cfg.Names
	timeout := cfg.Timeout
	if o.Cover {
		names = []string{"z3-new"}
		timeout = 2 * time.Second
	} else if len(names) > 1 {
		// portfolio: quantifier instantiation in z3 4.8 is sensitive to the random seed (an obligation proved in a
		// second under five seeds out of eight and not at all under the others was met); two more seeds of it are raced
		names = append(append([]string{}, names...), "z3#1", "z3#2")
	}
	base := filepath.Join(cfg.WorkDir, fmt.Sprintf("q%05d", idx))
	ctx, cancel := context.WithCancel(context.Background())
	defer cancel()
	ch := make(chan solveOut, len(names))
	for _, n := range names {
		n := n
		go func() {
			file := base + "." + n + ".smt2"
			sv, seed := n, cfg.Seed
			if i := strings.IndexByte(n, '#'); i >= 0 {
				k, _ := strconv.Atoi(n[i+1:])
				sv, seed = n[:i], cfg.Seed+k*1000003
			}
			if err := os.WriteFile(file, []byte(e.queryText(o, axioms, seed, sv)), 0o644); err != nil {
				ch <- solveOut{n, "error", err.Error(), 0}
				return
			}
			cmd := solverCmd(sv, file, timeout, seed)
			var out bytes.Buffer
			cmd.Stdout, cmd.Stderr = &out, &out
			t0 := time.Now()
			if err := cmd.Start(); err != nil {
				ch <- solveOut{n, "error", err.Error(), 0}
				return
			}
			done := make(chan struct{})
			go func() {
				select {
				case <-ctx.Done():
					cmd.Process.Kill()
				case <-done:
				}
			}()
			cmd.Wait()
			close(done)
			st := firstLine(out.String())
			switch st {
			case "unsat", "sat", "unknown":
			case "timeout":
			default:
				if strings.Contains(out.String(), "timeout") || strings.Contains(out.String(), "interrupted") {
					st = "timeout"
				} else if st != "" && !strings.HasPrefix(st, "(error") {
					st = "error"
				} else if st == "" {
					st = "timeout"
				} else {
					st = "error"
				}
			}
			ch <- solveOut{n, st, out.String(), time.Since(t0).Seconds()}
		}()
	}
	var all []solveOut
	final := solveOut{status: "unknown"}
	decided := false
	for range names {
		r := <-ch
		all = append(all, r)
		if !decided && (r.status == "unsat" || r.status == "sat") {
			final = r
			decided = true
			cancel()
		}
	}
	if !decided {
		// report the most informative non-answer
		var outs []string
		st := "unknown"
		tmax := 0.0
		allTimeout := true
		for _, r := range all {
			outs = append(outs, fmt.Sprintf("[%s] %s", r.solver, strings.TrimSpace(truncate(r.out, 400))))
			if r.status != "timeout" && r.status != "error" {
				allTimeout = false
			}
			if r.status == "error" {
				st = "error"
			}
			if r.secs > tmax {
				tmax = r.secs
			}
		}
		if allTimeout && st != "error" {
			st = "timeout"
		}
		final = solveOut{solver: "-", status: st, out: strings.Join(outs, "\n"), secs: tmax}
	}
	o.Status, o.Solver, o.TimeS, o.Output = final.status, final.solver, final.secs, truncate(final.out, 2000)
	o.QueryFile = base + "." + pick(final.solver, names) + ".smt2"
	if !cfg.KeepQueries && o.Status == "unsat" {
		for _, n := range names {
			os.Remove(base + "." + n + ".smt2")
		}
		o.QueryFile = ""
	}
}

func pick(s string, names []string) string {
	for _, n := range names {
		if n == s {
			return n
		}
	}
	return names[0]
}

func truncate(s string, n int) string {
	if len(s) > n {
		return s[:n] + "..."
	}
	return s
}

func (e *Engine) solveAll(obls []*Obligation, axioms []axFact, cfg *SolverCfg) {
	os.MkdirAll(cfg.WorkDir, 0o755)
	var wg sync.WaitGroup
	sem := make(chan struct{}, cfg.Workers)
	for i, o := range obls {
		wg.Add(1)
		sem <- struct{}{}
		go func(i int, o *Obligation) {
			defer wg.Done()
			defer func() { <-sem }()
			e.solveOne(o, axioms, cfg, i)
		}(i, o)
	}
	wg.Wait()
}
