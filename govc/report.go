package main

import (
	"bufio"
	"encoding/json"
	"fmt"
	"os"
	"path/filepath"
	"sort"
	"strings"
	"time"
)

type Report struct {
	Prop     string
	Tier     string
	Seed     int
	Verif    string
	Plan     *PlanProp
	t0       time.Time
	Reruns   int
	Unstable []string
	NoEvidence bool
	WorkDir    string
}

type knownFinding struct {
	prop, obligation, text string
}

func loadKnown(verif string) (finds []knownFinding, fixed []string) {
	f, err := os.Open(filepath.Join(verif, "known-findings.txt"))
	if err != nil {
		return nil, nil
	}
	defer f.Close()
	sc := bufio.NewScanner(f)
	for sc.Scan() {
		ln := strings.TrimSpace(sc.Text())
		if strings.HasPrefix(ln, "finding:") {
			kf := knownFinding{text: strings.TrimSpace(ln[len("finding:"):])}
			for _, f := range strings.Fields(kf.text) {
				if strings.HasPrefix(f, "property=") {
					kf.prop = f[len("property="):]
				}
				if strings.HasPrefix(f, "obligation=") {
					kf.obligation = f[len("obligation="):]
				}
			}
			finds = append(finds, kf)
		} else if strings.HasPrefix(ln, "fixed:") {
			fixed = append(fixed, ln)
		}
	}
	return
}

func (r *Report) writeEvidence(ev map[string]interface{}) {
	if r.NoEvidence {
		return
	}
	os.MkdirAll(filepath.Join(r.Verif, "evidence"), 0o755)
	data, _ := json.MarshalIndent(ev, "", " ")
	os.WriteFile(filepath.Join(r.Verif, "evidence", r.Prop+".json"), append(data, '\n'), 0o644)
}

func (r *Report) fatalBuild(err error) {
	// the tree does not load (type error, contract file syntax): the check is broken, not a violation
	fmt.Printf("govc: cannot build verification conditions: %v\n", err)
	r.writeEvidence(map[string]interface{}{
		"property_id": r.Prop, "tier": r.Tier, "seed": r.Seed, "level": "proof",
		"coverage": map[string]interface{}{"obligations": 0, "discharged": 0, "checker_cmd": "govc check " + r.Prop, "trusted_base": []string{}, "explanation": "engine could not load the tree: " + err.Error()},
		"wall_s":   time.Since(r.t0).Seconds(), "violations": 0,
	})
	os.Exit(2)
}

func (r *Report) finish(e *Engine, units []*UnitResult, obls []*Obligation, verbose bool) {
	known, _ := loadKnown(r.Verif)
	total, discharged := 0, 0
	wins := map[string]int{}
	var tsum, tmax float64
	var failed []*Obligation
	var vacuous []*Obligation
	covers := 0
	skipped := 0
	for _, o := range obls {
		if o.Status == "skipped" {
			skipped++
			continue
		}
		if o.Cover {
			covers++
			if o.Status == "unsat" {
				vacuous = append(vacuous, o)
			}
			continue
		}
		total++
		tsum += o.TimeS
		if o.TimeS > tmax {
			tmax = o.TimeS
		}
		if o.Status == "unsat" {
			discharged++
			wins[o.Solver]++
		} else {
			failed = append(failed, o)
		}
	}
	var unitErrs []*UnitResult
	var fuc []string
	var notes []string
	callees := map[string]bool{}
	for _, u := range units {
		if u.Err != "" {
			unitErrs = append(unitErrs, u)
			continue
		}
		fuc = append(fuc, u.VC.name)
		for _, n := range u.VC.notes {
			notes = append(notes, u.VC.name+": "+n)
		}
		for _, c := range u.Callees {
			callees[c] = true
		}
	}
	sort.Strings(fuc)
	sort.Strings(notes)

	violations := 0
	var lines []string
	replayDir := filepath.Join(r.Verif, "replays", r.Prop)
	if r.NoEvidence {
		replayDir = filepath.Join(os.TempDir(), fmt.Sprintf("govc-replays-%d", os.Getpid()), r.Prop)
	}
	os.RemoveAll(replayDir)
	report := func(name, desc, pos, status, output, query string) {
		// known finding?
		for _, k := range known {
			if k.prop == r.Prop && k.obligation == name {
				lines = append(lines, "KNOWN-FINDING: "+k.text)
				return
			}
		}
		violations++
		os.MkdirAll(replayDir, 0o755)
		file := filepath.Join(replayDir, sanitize(name)+".json")
		rp := map[string]interface{}{
			"property": r.Prop, "obligation": name, "description": desc, "position": pos, "solver_status": status,
			"solver_output": output, "query_file": query,
			"explanation": "This obligation is generated from the current source of /repo and is discharged on the unchanged tree; on this tree no solver could discharge it. No concrete failing input was constructed from the solver output.",
			"replay": "no-failing-input-found",
		}
		data, _ := json.MarshalIndent(rp, "", " ")
		os.WriteFile(file, data, 0o644)
		lines = append(lines, fmt.Sprintf("VIOLATION property=%s replay=%s no-failing-input-found", r.Prop, file))
	}
	for _, k := range known {
		// findings established outside the generated obligations (replay tests under /verif/findings): always listed
		if k.prop == r.Prop && strings.HasPrefix(k.obligation, "external:") {
			lines = append(lines, "KNOWN-FINDING: "+k.text)
		}
	}
	for i, o := range failed {
		if verbose && i < 12 {
			fmt.Printf("FAILED %s [%s] %s (%s) %s\n", o.Name, o.Status, o.Desc, o.Pos, o.QueryFile)
		}
		report(o.Name, o.Desc, o.Pos, o.Status, o.Output, o.QueryFile)
	}
	for _, u := range unitErrs {
		if verbose {
			fmt.Printf("UNIT-ERROR %s: %s\n", u.Func, u.Err)
		}
		report("unit:"+u.Func+"/"+u.Aspect, "the function could not be verified against its contract: "+u.Err, "", u.ErrKind, u.Err, "")
	}
	if skipped > 0 {
		fmt.Printf("fail-fast run: %d obligations not attempted after the first undischarged one\n", skipped)
	}
	broken := false
	for _, o := range vacuous {
		if len(failed) > 0 {
			// an obligation that failed is assumed afterwards (so that one defect is reported once): facts after it
			// may be contradictory; the probe is meaningful only on a tree where everything is discharged
			continue
		}
		fmt.Printf("BROKEN: vacuity probe %s is provable: assumptions are contradictory\n", o.Name)
		broken = true
	}
	if total == 0 && len(unitErrs) == 0 {
		fmt.Printf("BROKEN: no obligations were generated\n")
		broken = true
	}
	var retried []string
	for _, o := range obls {
		if !o.Cover && o.Status == "unsat" && strings.Contains(o.Solver, "(seed") {
			retried = append(retried, o.Name+" ["+o.Solver+"]")
		}
	}
	for _, u := range retried {
		// discharged, but only at a retry under another solver seed: a fragile obligation worth strengthening
		fmt.Printf("NOTE: discharged only at a retry under another solver seed: %s\n", u)
	}
	for _, u := range r.Unstable {
		// discharged under the run's seed (a proof), not re-proved under another seed: a robustness note, not a failure
		fmt.Printf("NOTE: not re-proved under another seed: %s\n", u)
	}

	// slowest discharged obligations (stability margin)
	var slow []*Obligation
	for _, o := range obls {
		if !o.Cover {
			slow = append(slow, o)
		}
	}
	sort.Slice(slow, func(i, j int) bool { return slow[i].TimeS > slow[j].TimeS })
	var slowest []interface{}
	for i, o := range slow {
		if i >= 8 {
			break
		}
		slowest = append(slowest, map[string]interface{}{"obligation": o.Name, "time_s": o.TimeS, "solver": o.Solver, "status": o.Status})
		if verbose {
			fmt.Printf("SLOW %.2fs %s [%s %s] %s\n", o.TimeS, o.Name, o.Status, o.Solver, truncate(o.Desc, 100))
		}
	}
	// samples
	var samples []interface{}
	for i, o := range obls {
		if i%maxInt(1, len(obls)/8) == 0 && len(samples) < 10 {
			samples = append(samples, map[string]interface{}{"obligation": o.Name, "desc": o.Desc, "pos": o.Pos, "status": o.Status, "solver": o.Solver, "time_s": o.TimeS, "facts_in_scope": o.upto})
		}
	}
	var externs []string
	for _, k := range sortedKeys(e.usedExterns) {
		externs = append(externs, k+": "+e.usedExterns[k])
	}
	var axs []string
	for _, a := range e.cs.Axioms {
		if !a.Lemma {
			axs = append(axs, a.Name+": "+a.Src)
		}
	}
	assumptions := []string{
		"A-ARITH: Go integers are mathematical integers (no overflow)",
		"A-STR: strings are an uninterpreted sort; literals pairwise distinct; library string functions are uninterpreted functions constrained only by the listed axioms",
		"A-APPEND: slices are values (no aliasing of backing arrays through different slice headers)",
		"A-ALLOC: allocation yields references distinct from all allocated ones; contents of unallocated memory unconstrained (prophecy-style phantom cells for read-only local copies)",
		"A-DEPS-NOPANIC: dependency functions do not panic unless their extern contract has a requires clause",
		"A-CALLBACK: calls through function-typed parameters return arbitrary results and do not write the document",
		"map iteration is an arbitrary enumeration of the key set (sound for every order)",
		"the VC generator (govc), go/ssa v0.29.0 and the SMT solvers are trusted",
	}
	for _, a := range axs {
		assumptions = append(assumptions, "axiom "+a)
	}
	for _, x := range externs {
		assumptions = append(assumptions, "extern "+x)
	}
	for _, n := range notes {
		assumptions = append(assumptions, "note "+n)
	}
	for _, res := range r.Plan.Residual {
		assumptions = append(assumptions, "residual (not decided): "+res)
	}
	var calleeList []string
	for c := range callees {
		calleeList = append(calleeList, c)
	}
	sort.Strings(calleeList)
	cov := map[string]interface{}{
		"obligations": total, "discharged": discharged,
		"checker_cmd":  fmt.Sprintf("govc check -tier %s %s (z3 4.8.12 / z3 5.1.0 / cvc5 1.0.3 raced per obligation)", r.Tier, r.Prop),
		"trusted_base": []string{"govc VC generator (/verif/govc)", "golang.org/x/tools/go/ssa v0.29.0", "z3 4.8.12", "z3 5.1.0", "cvc5 1.0.3", "extern contracts and axioms listed under assumptions"},
		"functions_under_contract": fuc,
		"callee_contracts_used":    calleeList,
		"solver_wins":              wins,
		"solver_time_total_s":      tsum,
		"solver_time_max_s":        tmax,
		"vacuity_probes":           covers,
		"vacuity_probes_provable":  len(vacuous),
		"samples":                  samples,
		"slowest":                  slowest,
		"residual":                 r.Plan.Residual,
		"bounded":                  r.Plan.Bounded,
		"units_not_verified":       len(unitErrs),
		"seed_reruns":              r.Reruns,
		"discharged_at_seed_retry": retried,
		"seed_reruns_not_reproved": r.Unstable,
		"contract_files":           e.files,
	}
	ev := map[string]interface{}{
		"property_id": r.Prop, "tier": r.Tier, "seed": r.Seed, "level": "proof",
		"coverage": cov, "assumptions": assumptions, "wall_s": time.Since(r.t0).Seconds(), "violations": violations,
	}
	r.writeEvidence(ev)
	for i, l := range lines {
		if i == 25 {
			fmt.Printf("... %d more lines\n", len(lines)-25)
			break
		}
		fmt.Println(l)
	}
	fmt.Printf("%s %s: %d/%d obligations discharged over %d units (%d not verified), %d vacuity probes, solver time %.1fs (max %.2fs), wall %.1fs\n",
		r.Prop, r.Tier, discharged, total, len(fuc), len(unitErrs), covers, tsum, tmax, time.Since(r.t0).Seconds())
	if r.NoEvidence && r.WorkDir != "" {
		os.RemoveAll(r.WorkDir) // scratch runs (selftest, seeded changes) leave nothing behind
	}
	if broken {
		os.Exit(2)
	}
	if violations > 0 {
		os.Exit(1)
	}
	os.Exit(0)
}

func maxInt(a, b int) int {
	if a > b {
		return a
	}
	return b
}

// frameUnits: see frames.go
