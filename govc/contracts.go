package main

// Contract files: `//@` comment lines in verif_contracts*.go files of each package
// (build tag verif, comment-only) and in the shared prelude shipped with the engine.

import (
	"fmt"
	"os"
	"path/filepath"
	"regexp"
	"sort"
	"strconv"
	"strings"
)

type Clause struct {
	E    Expr
	Src  string
	File string
	Line int
}

type ModTarget struct {
	E    Expr      // *p, p.f, m (map), ...
	Heap *TypeExpr // "heap T": whole heap of pointer target / map type
	MapOf bool     // "map m": the contents of map m
	Group string   // "heaps NAME": every heap of a named group
	Ghost string   // "ghost NAME": a global ghost variable
	Src  string
}

type LoopSpec struct {
	Invariants []Clause
	Modifies   []ModTarget
	HasMod     bool
	Decreases  *Clause
}

type FuncContract struct {
	Header    string // as written
	PkgHint   string // quoted path or ident for externs; "" for in-package
	RecvType  string // "T" or "*T" or ""
	Name      string
	Extern    bool
	Aspect    string
	Requires  []Clause
	Ensures   []Clause
	TrustedEnsures []Clause // assumed at call sites, NOT checked against the body (dependency semantics); listed as assumptions
	Modifies  []ModTarget
	HasMod    bool
	Decreases *Clause
	Loops     map[int]*LoopSpec
	Pure      bool
	Fresh     bool // extern: results unconstrained
	HavocAll  bool // extern: may modify everything reachable (all heaps)
	MayPanic  bool // panics allowed (no-panic obligation not generated for explicit panics)
	PanicsWhen []Clause
	Inline    bool
	NoFrame   bool
	Assumed   bool // contract is assumed, body not verified (listed in evidence)
	Props     []string // properties this contract serves
	Uses      map[string]string // callee name -> aspect of the callee contract to use at its call sites
	Clobbers  []string            // extern: slice parameters whose elements the function overwrites in place (sort.Strings)
	Callsites map[string][]Clause // callee name -> conditions that must hold at every call of it in this function (callee_<param> = actual argument)
	File      string
	Line      int
	PkgPath   string // package of the contract file
}

type SpecParam struct {
	Name string
	Type *TypeExpr
}

type SpecFun struct {
	Reads   string // for uninterpreted functions: "heaps G, heap T, ..."
	Opaque  bool
	Name    string
	Params  []SpecParam
	Result  *TypeExpr
	Body    Expr
	Src     string
	File    string
	Line    int
	PkgPath string
}

type Axiom struct {
	Name    string
	E       Expr
	Src     string
	Lemma   bool
	Props   []string
	File    string
	Line    int
	PkgPath string
	Note    string
}

type ContractSet struct {
	Funcs  []*FuncContract
	Funs   []*SpecFun
	Axioms []*Axiom
	Groups map[string][]*TypeExpr // named groups of heap types: heaps NAME = T1, T2, ...
	Ghosts []string               // global boolean ghost variables: ghost NAME bool
	CallbackGhosts map[string]bool // ... declared `callback`
	CallbackFalse  map[string]bool // ... declared `callback-false` (subset of CallbackGhosts)
}

var kwRe = regexp.MustCompile(`^(func|extern|fun|ofun|heaps|ghost|axiom|lemma|aspect|requires|ensures|modifies|decreases|loop|pure|fresh|havocs|maypanic|panics|inline|assumed|props|noframe|uses|trusted_ensures|callsite|clobbers)\b`)

type rawItem struct {
	kw   string
	text string
	file string
	line int
}

func readContractFile(path string) ([]rawItem, error) {
	data, err := os.ReadFile(path)
	if err != nil {
		return nil, err
	}
	var items []rawItem
	for i, ln := range strings.Split(string(data), "\n") {
		t := strings.TrimSpace(ln)
		if !strings.HasPrefix(t, "//@") {
			continue
		}
		t = strings.TrimSpace(t[3:])
		if t == "" {
			continue
		}
		if idx := strings.Index(t, " //"); idx >= 0 && !strings.Contains(t[idx:], "\"") {
			t = strings.TrimSpace(t[:idx])
		}
		if m := kwRe.FindString(t); m != "" {
			items = append(items, rawItem{kw: m, text: strings.TrimSpace(t[len(m):]), file: path, line: i + 1})
		} else if len(items) > 0 {
			items[len(items)-1].text += " " + t
		} else {
			return nil, fmt.Errorf("%s:%d: continuation without clause", path, i+1)
		}
	}
	return items, nil
}

func (cs *ContractSet) load(path, pkgPath string) error {
	items, err := readContractFile(path)
	if err != nil {
		return err
	}
	var cur *FuncContract
	fail := func(it rawItem, f string, a ...interface{}) error {
		return fmt.Errorf("%s:%d: %s", it.file, it.line, fmt.Sprintf(f, a...))
	}
	clause := func(it rawItem, src string) (Clause, error) {
		e, err := parseExpr(src)
		if err != nil {
			return Clause{}, fail(it, "%v", err)
		}
		return Clause{E: e, Src: src, File: it.file, Line: it.line}, nil
	}
	for _, it := range items {
		switch it.kw {
		case "func", "extern":
			txt := it.text
			fc := &FuncContract{Header: it.kw + " " + txt, Extern: it.kw == "extern", Aspect: "main", Loops: map[int]*LoopSpec{}, File: it.file, Line: it.line, PkgPath: pkgPath}
			txt = strings.TrimPrefix(txt, "func ")
			txt = strings.TrimSpace(txt)
			if strings.HasPrefix(txt, "(") {
				end := strings.Index(txt, ")")
				recv := strings.TrimSpace(txt[1:end])
				// forms: "s *Spec", "*Spec", "Spec", `*"pkg/path".T`, `pkg.T`
				fs := strings.Fields(recv)
				recv = fs[len(fs)-1]
				star := ""
				if strings.HasPrefix(recv, "*") {
					star = "*"
					recv = recv[1:]
				}
				if i := strings.LastIndex(recv, "."); i >= 0 {
					fc.PkgHint = strings.Trim(recv[:i], `"`)
					recv = recv[i+1:]
				}
				fc.RecvType = star + recv
				txt = strings.TrimSpace(txt[end+1:])
			}
			if i := strings.Index(txt, "("); i >= 0 {
				txt = txt[:i]
			}
			txt = strings.TrimSpace(txt)
			if i := strings.LastIndex(txt, "."); i >= 0 && fc.RecvType == "" {
				fc.PkgHint = strings.Trim(txt[:i], `"`)
				txt = txt[i+1:]
			}
			fc.Name = txt
			if fc.Name == "" {
				return fail(it, "cannot parse function header %q", it.text)
			}
			cs.Funcs = append(cs.Funcs, fc)
			cur = fc
		case "ghost":
			f := strings.Fields(it.text)
			if !(len(f) == 2 || (len(f) == 3 && (f[2] == "callback" || f[2] == "callback-false"))) || f[1] != "bool" {
				return fail(it, "ghost NAME bool [callback|callback-false]")
			}
			cs.Ghosts = append(cs.Ghosts, f[0])
			if len(f) == 3 {
				// set by every call through an unknown function value (a callback parameter); only the units whose
				// contract lists it are checked against it
				if cs.CallbackGhosts == nil {
					cs.CallbackGhosts = map[string]bool{}
				}
				cs.CallbackGhosts[f[0]] = true
				if f[2] == "callback-false" {
					// becomes true when a call through an unknown function value with a single bool result answers false
					if cs.CallbackFalse == nil {
						cs.CallbackFalse = map[string]bool{}
					}
					cs.CallbackFalse[f[0]] = true
				}
			}
			cur = nil
		case "heaps":
			i := strings.Index(it.text, "=")
			if i < 0 {
				return fail(it, "heaps NAME = T1, T2, ...")
			}
			name := strings.TrimSpace(it.text[:i])
			if cs.Groups == nil {
				cs.Groups = map[string][]*TypeExpr{}
			}
			for _, t := range splitTop(it.text[i+1:], ',') {
				if t == "" {
					continue
				}
				te, err := parseTypeExpr(t)
				if err != nil {
					return fail(it, "%v", err)
				}
				cs.Groups[name] = append(cs.Groups[name], te)
			}
			cur = nil
		case "fun", "ofun":
			sf, err := parseSpecFun(it.text)
			if err != nil {
				return fail(it, "%v", err)
			}
			sf.Opaque = it.kw == "ofun"
			sf.File, sf.Line, sf.PkgPath = it.file, it.line, pkgPath
			cs.Funs = append(cs.Funs, sf)
			cur = nil
		case "axiom", "lemma":
			i := strings.Index(it.text, ":")
			if i < 0 {
				return fail(it, "axiom/lemma needs 'name: expr'")
			}
			c, err := clause(it, strings.TrimSpace(it.text[i+1:]))
			if err != nil {
				return err
			}
			name := strings.TrimSpace(it.text[:i])
			var props []string
			if j := strings.Index(name, "["); j >= 0 {
				props = strings.Split(strings.Trim(name[j:], "[] "), ",")
				name = strings.TrimSpace(name[:j])
			}
			cs.Axioms = append(cs.Axioms, &Axiom{Name: name, E: c.E, Src: c.Src, Lemma: it.kw == "lemma", Props: props, File: it.file, Line: it.line, PkgPath: pkgPath})
			cur = nil
		default:
			if cur == nil {
				return fail(it, "clause %q outside a func/extern block", it.kw)
			}
			switch it.kw {
			case "aspect":
				cur.Aspect = it.text
			case "props":
				for _, p := range strings.Split(it.text, ",") {
					cur.Props = append(cur.Props, strings.TrimSpace(p))
				}
			case "uses":
				// uses <aspect> for f1, f2
				parts := strings.SplitN(it.text, " for ", 2)
				if len(parts) != 2 {
					return fail(it, "uses: expected 'uses <aspect> for f1, f2'")
				}
				if cur.Uses == nil {
					cur.Uses = map[string]string{}
				}
				for _, f := range strings.Split(parts[1], ",") {
					cur.Uses[strings.TrimSpace(f)] = strings.TrimSpace(parts[0])
				}
			case "clobbers":
				for _, f := range strings.Split(it.text, ",") {
					cur.Clobbers = append(cur.Clobbers, strings.TrimSpace(f))
				}
			case "callsite":
				// callsite F: <condition over the caller's state and callee_<param>>
				i := strings.Index(it.text, ":")
				if i < 0 {
					return fail(it, "callsite: expected 'callsite <function>: <condition>'")
				}
				c, err := clause(it, strings.TrimSpace(it.text[i+1:]))
				if err != nil {
					return err
				}
				if cur.Callsites == nil {
					cur.Callsites = map[string][]Clause{}
				}
				name := strings.TrimSpace(it.text[:i])
				cur.Callsites[name] = append(cur.Callsites[name], c)
			case "pure":
				cur.Pure = true
			case "fresh":
				cur.Fresh = true
			case "havocs":
				cur.HavocAll = true
			case "maypanic":
				cur.MayPanic = true
			case "inline":
				cur.Inline = true
			case "assumed":
				cur.Assumed = true
			case "noframe":
				cur.NoFrame = true
			case "panics":
				t := strings.TrimSpace(strings.TrimPrefix(it.text, "when"))
				c, err := clause(it, t)
				if err != nil {
					return err
				}
				cur.PanicsWhen = append(cur.PanicsWhen, c)
				cur.MayPanic = true
			case "requires":
				c, err := clause(it, it.text)
				if err != nil {
					return err
				}
				cur.Requires = append(cur.Requires, c)
			case "ensures":
				c, err := clause(it, it.text)
				if err != nil {
					return err
				}
				cur.Ensures = append(cur.Ensures, c)
			case "trusted_ensures":
				c, err := clause(it, it.text)
				if err != nil {
					return err
				}
				cur.TrustedEnsures = append(cur.TrustedEnsures, c)
			case "decreases":
				c, err := clause(it, it.text)
				if err != nil {
					return err
				}
				cur.Decreases = &c
			case "modifies":
				ms, err := parseModifies(it.text)
				if err != nil {
					return fail(it, "%v", err)
				}
				cur.Modifies = append(cur.Modifies, ms...)
				cur.HasMod = true
			case "loop":
				i := strings.Index(it.text, ":")
				if i < 0 {
					return fail(it, "loop clause needs 'loop N: ...'")
				}
				n, err := strconv.Atoi(strings.TrimSpace(it.text[:i]))
				if err != nil {
					return fail(it, "bad loop ordinal")
				}
				ls := cur.Loops[n]
				if ls == nil {
					ls = &LoopSpec{}
					cur.Loops[n] = ls
				}
				rest := strings.TrimSpace(it.text[i+1:])
				switch {
				case strings.HasPrefix(rest, "invariant"):
					c, err := clause(it, strings.TrimSpace(rest[len("invariant"):]))
					if err != nil {
						return err
					}
					ls.Invariants = append(ls.Invariants, c)
				case strings.HasPrefix(rest, "modifies"):
					ms, err := parseModifies(strings.TrimSpace(rest[len("modifies"):]))
					if err != nil {
						return fail(it, "%v", err)
					}
					ls.Modifies = append(ls.Modifies, ms...)
					ls.HasMod = true
				case strings.HasPrefix(rest, "decreases"):
					c, err := clause(it, strings.TrimSpace(rest[len("decreases"):]))
					if err != nil {
						return err
					}
					ls.Decreases = &c
				default:
					return fail(it, "unknown loop clause %q", rest)
				}
			}
		}
	}
	return nil
}

func splitTop(s string, sep byte) []string {
	var out []string
	depth := 0
	last := 0
	inStr := false
	for i := 0; i < len(s); i++ {
		c := s[i]
		switch {
		case c == '"':
			inStr = !inStr
		case inStr:
		case c == '(' || c == '[' || c == '{':
			depth++
		case c == ')' || c == ']' || c == '}':
			depth--
		case c == sep && depth == 0:
			out = append(out, strings.TrimSpace(s[last:i]))
			last = i + 1
		}
	}
	out = append(out, strings.TrimSpace(s[last:]))
	return out
}

func parseModifies(text string) ([]ModTarget, error) {
	var out []ModTarget
	if strings.TrimSpace(text) == "nothing" {
		return out, nil
	}
	for _, part := range splitTop(text, ',') {
		if part == "" {
			continue
		}
		if strings.HasPrefix(part, "heaps ") {
			out = append(out, ModTarget{Group: strings.TrimSpace(part[6:]), Src: part})
			continue
		}
		if strings.HasPrefix(part, "ghost ") {
			out = append(out, ModTarget{Ghost: strings.TrimSpace(part[6:]), Src: part})
			continue
		}
		if strings.HasPrefix(part, "heap ") {
			ts, err := lex(strings.TrimSpace(part[5:]))
			if err != nil {
				return nil, err
			}
			p := &parser{ts: ts}
			var te *TypeExpr
			func() {
				defer func() {
					if r := recover(); r != nil {
						err = fmt.Errorf("%v", r)
					}
				}()
				te = p.typeExpr()
			}()
			if err != nil {
				return nil, err
			}
			out = append(out, ModTarget{Heap: te, Src: part})
			continue
		}
		mapOf := false
		txt := part
		if strings.HasPrefix(part, "map ") {
			mapOf = true
			txt = strings.TrimSpace(part[4:])
		}
		e, err := parseExpr(txt)
		if err != nil {
			return nil, err
		}
		out = append(out, ModTarget{E: e, MapOf: mapOf, Src: part})
	}
	return out, nil
}

// fun name(a T, b U) R = body     |  fun name(a T) R
func parseSpecFun(text string) (*SpecFun, error) {
	i := strings.Index(text, "(")
	if i < 0 {
		return nil, fmt.Errorf("fun: missing '('")
	}
	sf := &SpecFun{Name: strings.TrimSpace(text[:i]), Src: text}
	depth := 0
	j := i
	for ; j < len(text); j++ {
		if text[j] == '(' {
			depth++
		}
		if text[j] == ')' {
			depth--
			if depth == 0 {
				break
			}
		}
	}
	params := text[i+1 : j]
	rest := strings.TrimSpace(text[j+1:])
	for _, p := range splitTop(params, ',') {
		if p == "" {
			continue
		}
		k := strings.IndexAny(p, " \t")
		if k < 0 {
			return nil, fmt.Errorf("fun %s: parameter %q needs a type", sf.Name, p)
		}
		te, err := parseTypeExpr(strings.TrimSpace(p[k:]))
		if err != nil {
			return nil, err
		}
		sf.Params = append(sf.Params, SpecParam{Name: p[:k], Type: te})
	}
	if k := strings.Index(rest, " reads "); k >= 0 {
		sf.Reads = strings.TrimSpace(rest[k+7:])
		rest = strings.TrimSpace(rest[:k])
	}
	body := ""
	if k := strings.Index(rest, "="); k >= 0 && !strings.HasPrefix(rest[k:], "==") {
		body = strings.TrimSpace(rest[k+1:])
		rest = strings.TrimSpace(rest[:k])
	}
	te, err := parseTypeExpr(rest)
	if err != nil {
		return nil, fmt.Errorf("fun %s: result type: %v", sf.Name, err)
	}
	sf.Result = te
	if body != "" {
		e, err := parseExpr(body)
		if err != nil {
			return nil, err
		}
		sf.Body = e
	}
	return sf, nil
}

func parseTypeExpr(s string) (te *TypeExpr, err error) {
	ts, err := lex(s)
	if err != nil {
		return nil, err
	}
	p := &parser{ts: ts, src: s}
	defer func() {
		if r := recover(); r != nil {
			err = fmt.Errorf("%v in type %q", r, s)
		}
	}()
	te = p.typeExpr()
	if p.peek().kind != "eof" {
		return nil, fmt.Errorf("trailing input in type %q", s)
	}
	return te, nil
}

// loadAll reads the prelude and every verif_contracts*.go under the module root.
func loadContracts(root string, preludes []string, pkgDirs map[string]string) (*ContractSet, []string, error) {
	cs := &ContractSet{}
	var files []string
	for _, p := range preludes {
		if err := cs.load(p, ""); err != nil {
			return nil, nil, err
		}
		files = append(files, p)
	}
	var dirs []string
	for d := range pkgDirs {
		dirs = append(dirs, d)
	}
	sort.Strings(dirs)
	for _, d := range dirs {
		ms, _ := filepath.Glob(filepath.Join(d, "verif_contracts*.go"))
		sort.Strings(ms)
		for _, m := range ms {
			if err := cs.load(m, pkgDirs[d]); err != nil {
				return nil, nil, err
			}
			files = append(files, m)
		}
	}
	return cs, files, nil
}
