package main

import (
	"go/token"
	"fmt"
	"go/types"
	"sort"
	"strings"

	"golang.org/x/tools/go/ssa"
)

func (fr *Frame) execCall(ins *ssa.Call, st *State) {
	c := ins.Common()
	res := fr.doCall(ins, c, st)
	if st.dead {
		return
	}
	sig := c.Signature()
	switch sig.Results().Len() {
	case 0:
		fr.env[ins] = Val{tuple: []Val{}}
	case 1:
		if len(res) != 1 {
			unsup("call %s: expected 1 result, got %d", c, len(res))
		}
		fr.ex.assumeAllocated(st, res[0])
		fr.env[ins] = res[0]
	default:
		fr.env[ins] = Val{tuple: res}
	}
}

func (fr *Frame) doCall(ins *ssa.Call, c *ssa.CallCommon, st *State) []Val {
	ex := fr.ex
	if c.IsInvoke() {
		return fr.callInvoke(ins, c, st)
	}
	var args []Val
	switch v := c.Value.(type) {
	case *ssa.Builtin:
		return fr.callBuiltin(ins, v, c, st)
	case *ssa.Function:
		for _, a := range c.Args {
			args = append(args, fr.val(a))
		}
		return fr.callStatic(ins, v, nil, args, st)
	case *ssa.MakeClosure:
		for _, a := range c.Args {
			args = append(args, fr.val(a))
		}
		var bs []Val
		for _, b := range v.Bindings {
			bs = append(bs, fr.val(b))
		}
		return fr.callStatic(ins, v.Fn.(*ssa.Function), bs, args, st)
	}
	fv := fr.val(c.Value)
	for _, a := range c.Args {
		args = append(args, fr.val(a))
	}
	if fv.closure != nil {
		return fr.callStatic(ins, fv.closure.fn, fv.closure.bindings, args, st)
	}
	if fv.fn != nil {
		return fr.callStatic(ins, fv.fn, nil, args, st)
	}
	if ld, ok := c.Value.(*ssa.UnOp); ok {
		if g, ok := ld.X.(*ssa.Global); ok && isLogSink(g) {
			ex.vc.note("call through package variable %s.%s treated as an effect-free logging sink", g.Pkg.Pkg.Name(), g.Name())
			return fr.freshResults(c.Signature(), st)
		}
	}
	// call through a function value: known closures are inlined under the condition that the value is theirs
	if fv.t != "" && len(ex.closures) > 0 {
		if cl, ok := ex.closures[fv.t]; ok {
			return fr.callStatic(ins, cl.fn, cl.bindings, args, st)
		}
		return fr.callDynamic(ins, c, fv, args, st)
	}
	return fr.callCallback(ins, c, fv, args, st)
}

func isLogSink(g *ssa.Global) bool { return g.Name() == "debugLog" }

func (fr *Frame) freshResults(sig *types.Signature, st *State) []Val {
	ex := fr.ex
	var out []Val
	for i := 0; i < sig.Results().Len(); i++ {
		rt := sig.Results().At(i).Type()
		v := Val{t: ex.vc.fresh("res", ex.eng.S.sortOf(rt)), typ: rt}
		ex.assumeAllocated(st, v)
		out = append(out, v)
	}
	return out
}

// callCallback: call of an unknown function value (a callback parameter).
// Model (A-CALLBACK): arbitrary results, does not write the heaps visible to the verified code; it may panic,
// which is the callback's own behaviour and not an obligation of the caller.
func (fr *Frame) callCallback(ins *ssa.Call, c *ssa.CallCommon, fv Val, args []Val, st *State) []Val {
	ex := fr.ex
	if fv.t != "" {
		fr.safetyOb(st, "nilfunc", "call of nil function value", ins.Pos(), not(eq(fv.t, "0")))
	}
	ex.vc.note("call through function value %s modelled as arbitrary-result, document-preserving callback (A-CALLBACK)", c.Value.Name())
	for g := range ex.eng.cs.CallbackGhosts {
		if ex.listsGhost(g) {
			if ex.frames {
				for _, sc := range fr.activeScopes() {
					if !sc.wholeHeaps[ghostKey(g)] {
						ex.vc.oblige("frame", fmt.Sprintf("a callback call sets ghost %s, scope %s allows {%s}", g, sc.name, strings.Join(sc.srcs, ", ")), ex.pos(ins.Pos()), st.pc, "false")
					}
				}
			}
			if !ex.eng.cs.CallbackFalse[g] {
				st.ghosts[g] = TVal{"true", tBool}
			}
		}
	}
	res := fr.freshResults(c.Signature(), st)
	// answer-recording ghosts: g' = g || !answer, for callbacks with a single bool result
	if len(res) == 1 && res[0].typ != nil {
		if b, ok := res[0].typ.Underlying().(*types.Basic); ok && b.Kind() == types.Bool {
			for g := range ex.eng.cs.CallbackFalse {
				if ex.listsGhost(g) {
					old := st.ghosts[g].t
					if old == "" {
						old = "false"
					}
					st.ghosts[g] = TVal{or(old, not(res[0].t)), tBool}
				}
			}
		}
	}
	return res
}

func (fr *Frame) callInvoke(ins *ssa.Call, c *ssa.CallCommon, st *State) []Val {
	ex := fr.ex
	recv := fr.val(c.Value)
	var args []Val
	for _, a := range c.Args {
		args = append(args, fr.val(a))
	}
	name := c.Method.FullName()
	fc := ex.externFor(name)
	if fc == nil {
		// (error).Error and similar value-only interface methods
		sig := c.Signature()
		if valueOnlySig(sig) {
			rv := tv(recv, ex)
			var as []TVal
			for _, a := range args {
				as = append(as, tv(a, ex))
			}
			rs := ex.eng.pureAppN(ex.vc, st, c.Method, &rv, as, nil)
			return tvals(rs)
		}
		unsup("interface method %s has no extern contract", name)
	}
	fr.safetyOb(st, "nilderef", "method call on nil interface", ins.Pos(), not(eq(recv.t, "iface_nil")))
	return fr.applyExtern(ins, fc, c.Method, &recv, args, st)
}

func tvals(rs []TVal) []Val {
	var out []Val
	for _, r := range rs {
		out = append(out, Val{t: r.t, typ: r.typ})
	}
	return out
}

func valueOnlyType(t types.Type) bool {
	switch u := t.Underlying().(type) {
	case *types.Basic:
		return true
	case *types.Slice:
		return valueOnlyType(u.Elem())
	}
	return false
}

func valueOnlySig(sig *types.Signature) bool {
	for i := 0; i < sig.Params().Len(); i++ {
		if !valueOnlyType(sig.Params().At(i).Type()) {
			return false
		}
	}
	for i := 0; i < sig.Results().Len(); i++ {
		if !valueOnlyType(sig.Results().At(i).Type()) {
			return false
		}
	}
	return sig.Results().Len() > 0
}

func (fr *Frame) callBuiltin(ins *ssa.Call, b *ssa.Builtin, c *ssa.CallCommon, st *State) []Val {
	ex := fr.ex
	S := ex.eng.S
	vc := ex.vc
	switch b.Name() {
	case "ssa:deferstack":
		return []Val{{t: "0", typ: ins.Type()}}
	case "ssa:wrapnilchk":
		return []Val{fr.val(c.Args[0])}
	case "len", "cap":
		x := fr.val(c.Args[0])
		switch u := c.Args[0].Type().Underlying().(type) {
		case *types.Map:
			return []Val{{t: vc.mapLen(st, u, x.t), typ: tInt}}
		case *types.Slice:
			return []Val{{t: fmt.Sprintf("(len_%s %s)", S.sortOf(x.typ), x.t), typ: tInt}}
		case *types.Basic:
			return []Val{{t: fmt.Sprintf("(strlen %s)", x.t), typ: tInt}}
		case *types.Array:
			return []Val{{t: fmt.Sprint(u.Len()), typ: tInt}}
		}
		unsup("len of %v", c.Args[0].Type())
	case "append":
		x := fr.val(c.Args[0])
		y := fr.val(c.Args[1])
		sn := S.sortOf(x.typ)
		if _, isStr := c.Args[1].Type().Underlying().(*types.Basic); isStr {
			unsup("append(bytes, string...)")
		}
		// result: fresh backing array (A-APPEND): prefix copied, suffix from y
		et := x.typ.Underlying().(*types.Slice).Elem()
		es := S.sortOf(et)
		lx := fmt.Sprintf("(len_%s %s)", sn, x.t)
		ly := fmt.Sprintf("(len_%s %s)", sn, y.t)
		var arr string
		xa := vc.sliceArr(st, x.typ, x.t)
		if len(y.elems) == 1 {
			arr = fmt.Sprintf("(store %s %s %s)", xa, lx, y.elems[0])
			ly = "1"
		} else if len(y.elems) == 0 && y.elemsKnown {
			arr = xa
			ly = "0"
		} else {
			ya := vc.sliceArr(st, y.typ, y.t)
			arr = vc.fresh("app", "(Array Int "+es+")")
			vc.assume(st.pc, fmt.Sprintf("(forall ((i Int)) (! (= (select %s i) (ite (< i %s) (select %s i) (select %s (- i %s)))) :pattern ((select %s i))))",
				arr, lx, xa, ya, lx, arr))
		}
		nl := fmt.Sprintf("(+ %s %s)", lx, ly)
		isnil := fmt.Sprintf("(and (nil_%s %s) (= %s 0))", sn, x.t, ly)
		if x.resl != nil {
			// append on a slice that was cut short (s[:i]): with spare capacity it overwrites elements of the slice it
			// was cut from. Modelled as a write of unknown elements into that slice (checked against the frame).
			fr.clobberSlice(st, *x.resl, ins.Pos(), "append on a re-sliced slice")
		}
		return []Val{{t: vc.define(regName(ins), sn, vc.mkSlice(st, ins.Type(), arr, nl, isnil)), typ: ins.Type(), backing: x.backing}}
	case "delete":
		m := fr.val(c.Args[0])
		mt := c.Args[0].Type().Underlying().(*types.Map)
		k := fr.term(c.Args[1])
		ex.mapDelete(fr, st, mt, m.t, k, ins.Pos())
		return nil
	case "copy":
		dst := fr.val(c.Args[0])
		src := fr.val(c.Args[1])
		if _, isStr := c.Args[1].Type().Underlying().(*types.Basic); isStr {
			unsup("copy(bytes, string)")
		}
		sn := S.sortOf(dst.typ)
		ld := fmt.Sprintf("(len_%s %s)", sn, dst.t)
		ls := fmt.Sprintf("(len_%s %s)", S.sortOf(src.typ), src.t)
		n := vc.define("ncopy", "Int", ite(fmt.Sprintf("(< %s %s)", ld, ls), ld, ls))
		if S.handle[sn] {
			unsup("copy into a slice of a recursive element type")
		}
		root := dst
		if dst.resl != nil {
			root = *dst.resl
		}
		if root.origin == nil {
			vc.droppedStores++
			vc.note("copy into a slice without known origin dropped (functional posts about that slice are not trusted)")
		} else if dst.resl != nil {
			fr.clobberSlice(st, root, ins.Pos(), "copy into a re-sliced slice")
		} else {
			es := S.sortOf(dst.typ.Underlying().(*types.Slice).Elem())
			da := vc.sliceArr(st, dst.typ, dst.t)
			sa := vc.sliceArr(st, src.typ, src.t)
			arr := vc.fresh("cpy", "(Array Int "+es+")")
			vc.assume(st.pc, fmt.Sprintf("(forall ((i Int)) (! (= (select %s i) (ite (and (<= 0 i) (< i %s)) (select %s i) (select %s i))) :pattern ((select %s i))))", arr, n, sa, da, arr))
			ns := vc.mkSlice(st, dst.typ, arr, ld, fmt.Sprintf("(nil_%s %s)", sn, dst.t))
			ex.store(fr, st, root.origin, Val{t: vc.define("sl", sn, ns), typ: dst.typ}, ins.Pos())
		}
		return []Val{{t: n, typ: tInt}}
	case "print", "println", "min", "max", "clear", "recover", "new", "real", "imag", "complex", "close":
		unsup("builtin %s", b.Name())
	}
	unsup("builtin %s", b.Name())
	return nil
}

// ---------------------------------------------------------------- static calls

func (fr *Frame) callStatic(ins *ssa.Call, fn *ssa.Function, bindings []Val, args []Val, st *State) []Val {
	ex := fr.ex
	fr.callsiteObligations(ins, fn, args, st)
	if ex.eng.inModule(fn) && fn.Synthetic == "" {
		fc := ex.calleeContract(fn)
		if fc != nil && fc.Pure && fc.Assumed {
			// in-module function assumed to be a deterministic, effect-free function of its argument values
			if fo, ok := fn.Object().(*types.Func); ok {
				var as []TVal
				for _, a := range args {
					if a.place != nil && !(a.place.kind == pkHeap && len(a.place.path) == 0) {
						as = append(as, TVal{t: fr.materialize(st, a.place), typ: a.typ})
					} else {
						as = append(as, tv(a, ex))
					}
				}
				ex.eng.usedExterns[fo.FullName()] = "assumed pure (in-module) [" + relFile(fc.File) + "]"
				return tvals(ex.eng.pureAppN(ex.vc, st, fo, nil, as, nil))
			}
		}
		if fc != nil && !fc.Inline {
			return fr.callContract(ins, fn, fc, args, st)
		}
		return fr.inline(ins, fn, bindings, args, st)
	}
	if ex.eng.inModule(fn) && fn.Synthetic != "" && len(fn.Blocks) > 0 {
		return fr.inline(ins, fn, bindings, args, st) // wrappers, bound methods
	}
	fo, ok := fn.Object().(*types.Func)
	if !ok {
		unsup("call of synthetic external function %s", fn)
	}
	var recv *Val
	rest := args
	if fn.Signature.Recv() != nil {
		recv = &args[0]
		rest = args[1:]
	}
	fc := ex.externFor(fo.FullName())
	if fc == nil {
		sig := fo.Type().(*types.Signature)
		if recv == nil && valueOnlySig(sig) {
			var as []TVal
			for _, a := range rest {
				as = append(as, tv(a, ex))
			}
			as, vpack := splitPack(sig, rest, as)
			ex.eng.usedExterns[fo.FullName()] = "implicit: value-only signature, uninterpreted pure function"
			return tvals(ex.eng.pureAppN(ex.vc, st, fo, nil, as, vpack))
		}
		unsup("external function %s has no contract", fo.FullName())
	}
	return fr.applyExtern(ins, fc, fo, recv, rest, st)
}

func (fr *Frame) applyExtern(ins *ssa.Call, fc *FuncContract, fo *types.Func, recv *Val, args []Val, st *State) []Val {
	ex := fr.ex
	vc := ex.vc
	sig := fo.Type().(*types.Signature)
	interior := map[string]*Place{}
	toT := func(v Val) TVal {
		if v.place != nil && !(v.place.kind == pkHeap && len(v.place.path) == 0) {
			// interior pointer handed to a dependency: a phantom reference stands for it in the contract; a
			// `modifies *p` on it is mapped back to the sub-object of its holder (below)
			t := fr.materialize(st, v.place)
			interior[t] = v.place
			return TVal{t: t, typ: v.typ}
		}
		if v.fn != nil || v.closure != nil {
			return TVal{t: fnArgTerm(vc, v), typ: v.typ}
		}
		return tv(v, ex)
	}
	var rv *TVal
	if recv != nil {
		x := toT(*recv)
		rv = &x
		if _, isP := isPtr(x.typ); isP && !strings.HasPrefix(x.t, "ph") {
			fr.safetyOb(st, "nilderef", fmt.Sprintf("method %s on nil pointer", fo.Name()), ins.Pos(), not(eq(x.t, "0")))
		}
	}
	var as []TVal
	for _, a := range args {
		as = append(as, toT(a))
	}
	how := "contract"
	if fc.Pure {
		how = "pure (uninterpreted function of argument values)"
	} else if fc.HavocAll {
		how = "havocs all heaps"
	}
	ex.eng.usedExterns[fo.FullName()] = how + " [" + relFile(fc.File) + "]"
	// parameter names for requires/ensures
	vars := map[string]TVal{}
	if rv != nil {
		vars["recv"] = *rv
		if sig.Recv() != nil && sig.Recv().Name() != "" {
			vars[sig.Recv().Name()] = *rv
		}
	}
	for i, a := range as {
		vars[fmt.Sprintf("arg%d", i)] = a
		if i < sig.Params().Len() && sig.Params().At(i).Name() != "" && sig.Params().At(i).Name() != "_" {
			vars[sig.Params().At(i).Name()] = a
		}
	}
	pre := st.clone()
	tc := &TrCtx{vc: vc, vars: vars, st: st, old: pre}
	if fc.PkgPath != "" {
		tc.pkg = ex.eng.tpkgs[fc.PkgPath]
	} else {
		tc.pkg = fo.Pkg()
	}
	for i, r := range fc.Requires {
		g := ex.trClause(tc, r)
		fr.safetyObNamed(st, "pre@"+fo.Name(), fmt.Sprintf("precondition %d of %s: %s", i+1, fo.FullName(), r.Src), ins.Pos(), g)
	}
	for _, cn := range fc.Clobbers {
		for i, a := range args {
			if i < sig.Params().Len() && sig.Params().At(i).Name() == cn {
				fr.clobberSlice(st, a, ins.Pos(), "dependency "+fo.Name()+" overwrites the elements of its argument")
			}
		}
	}
	var results []Val
	if fc.Pure {
		pas, vpack := splitPack(sig, args, as)
		results = tvals(ex.eng.pureAppN(vc, st, fo, rv, pas, vpack))
	} else {
		if fc.HavocAll {
			ex.frameCheckAll(fr, st, ins)
			ex.havocAll(st)
			n := vc.fresh("next", "Int")
			vc.assume("true", fmt.Sprintf("(>= %s %s)", n, st.next))
			st.next = n
		} else {
			ts, whole := ex.resolveTargets(tc, fc.Modifies)
			tc.flush()
			for i, t := range ts {
				pl, ok := interior[t.ref]
				if !ok || t.isMap {
					continue
				}
				if pl.kind != pkHeap || pl.phantom {
					unsup("dependency %s modifies memory behind an interior pointer that is not a field of a heap object", fo.Name())
				}
				var path []int
				for _, sl := range pl.path {
					if sl.field < 0 {
						unsup("dependency %s modifies an array element behind an interior pointer", fo.Name())
					}
					path = append(path, sl.field)
				}
				k, srt := ex.eng.S.heapKeyPtr(pl.root)
				vc.heapSorts[k] = srt
				ts[i] = modTarget{heapKey: k, ref: pl.ref, path: append(path, t.path...), elem: pl.root, src: t.src, def: t.def}
			}
			for _, t := range ts {
				ex.frameCheck(fr, st, t, ins.Pos())
			}
			for _, k := range sortedKeys(whole) {
				ex.frameCheckWhole(fr, st, k, ins)
			}
			ex.applyHavoc(st, ts, whole)
			n := vc.fresh("next", "Int")
			vc.assume("true", fmt.Sprintf("(>= %s %s)", n, st.next))
			st.next = n
		}
		results = fr.freshResults(sig, st)
	}
	if len(fc.Ensures) > 0 {
		tc2 := &TrCtx{vc: vc, vars: vars, st: st, old: pre, pkg: tc.pkg}
		bindResults(tc2, results, sig, ex)
		for _, e := range fc.Ensures {
			vc.assume(st.pc, ex.trClause(tc2, e))
		}
	}
	return results
}

func relFile(f string) string {
	if i := strings.LastIndex(f, "/"); i >= 0 {
		return f[i+1:]
	}
	return f
}

func bindResults(tc *TrCtx, results []Val, sig *types.Signature, ex *Exec) {
	for i, r := range results {
		t, ok := ex.valTermOK(r)
		if !ok {
			continue
		}
		x := TVal{t, r.typ}
		if i == 0 {
			tc.vars["result"] = x
		}
		tc.vars[fmt.Sprintf("result%d", i)] = x
		tc.vars[fmt.Sprintf("result.%d", i)] = x
		if i < sig.Results().Len() && sig.Results().At(i).Name() != "" {
			tc.vars[sig.Results().At(i).Name()] = x
		}
	}
}

func (fr *Frame) safetyObNamed(st *State, kind, desc string, pos interface{ IsValid() bool }, goal string) {
	ex := fr.ex
	if goal == "true" {
		return
	}
	k := kind
	if fr.fn != ex.top {
		k += "@" + fr.fn.Name()
	}
	ex.vc.oblige(k, desc, "", st.pc, goal)
	ex.vc.assume(st.pc, goal)
}

func (ex *Exec) frameCheckAll(fr *Frame, st *State, ins *ssa.Call) {
	if !ex.frames {
		return
	}
	for _, sc := range fr.activeScopes() {
		ex.vc.oblige("frame", fmt.Sprintf("call may modify everything, scope %s allows {%s}", sc.name, strings.Join(sc.srcs, ", ")), ex.pos(ins.Pos()), st.pc, "false")
	}
}

func (ex *Exec) frameCheckWhole(fr *Frame, st *State, key string, ins *ssa.Call) {
	if !ex.frames {
		return
	}
	if g, ok := ghostOfKey(key); ok && ex.eng.cs.CallbackGhosts[g] && !ex.listsGhost(g) {
		return // a unit that says nothing about the callback ghost is not checked against it
	}
	for _, sc := range fr.activeScopes() {
		if !sc.wholeHeaps[key] {
			ex.vc.oblige("frame", fmt.Sprintf("call may modify all of %s, scope %s allows {%s}", key, sc.name, strings.Join(sc.srcs, ", ")), ex.pos(ins.Pos()), st.pc, "false")
		}
	}
}

// materialize yields a reference whose pointee equals the current content of an interior place
// (sound for callees that only read through it; see DESIGN §2.3 "phantom references").
func (fr *Frame) materialize(st *State, p *Place) string {
	ex := fr.ex
	et := ex.typeAt(p)
	v := ex.load(st, p)
	c := ex.vc.fresh("ph_int", "Int")
	ex.vc.assume("true", fmt.Sprintf("(and (< 0 %s) (< %s %s))", c, c, st.next))
	ex.vc.assume(st.pc, eq(ex.vc.loadPtr(st, c, et), v.t))
	ex.vc.note("interior pointer passed to a read-only callee as a phantom reference (A-INTERIOR)")
	return c
}

// ---------------------------------------------------------------- calls by contract

func (fr *Frame) callContract(ins *ssa.Call, fn *ssa.Function, fc *FuncContract, args []Val, st *State) []Val {
	ex := fr.ex
	vc := ex.vc
	if !fc.HasMod && !fc.Pure && !fc.HavocAll {
		unsup("callee %s has a contract without a modifies clause", fn.Name())
	}
	if fc.Assumed {
		vc.note("contract of %s (aspect %s) is assumed: used at its call sites, not verified against its body", shortFuncName(fn), fc.Aspect)
	}
	vars := map[string]TVal{}
	for i, p := range fn.Params {
		a := args[i]
		if a.place != nil && !(a.place.kind == pkHeap && len(a.place.path) == 0) {
			if modifiesParam(fc, p.Name()) {
				unsup("interior pointer passed to %s which modifies *%s", fn.Name(), p.Name())
			}
			vars[p.Name()] = TVal{t: fr.materialize(st, a.place), typ: p.Type()}
			continue
		}
		if a.fn != nil || a.closure != nil {
			vars[p.Name()] = TVal{t: fnArgTerm(vc, a), typ: p.Type()}
			continue
		}
		vars[p.Name()] = tv(a, ex)
	}
	pre := st.clone()
	tc := &TrCtx{vc: vc, vars: vars, st: st, old: pre}
	if fn.Pkg != nil {
		tc.pkg = fn.Pkg.Pkg
	}
	ex.calleeNote[fn.String()+" ["+fc.Aspect+"]"] = true
	for i, r := range fc.Requires {
		g := ex.trClause(tc, r)
		k := "pre@" + fn.Name()
		if fr.fn != ex.top {
			k += "@" + fr.fn.Name()
		}
		vc.oblige(k, fmt.Sprintf("precondition %d of %s: %s", i+1, fn.Name(), r.Src), ex.pos(ins.Pos()), st.pc, g)
		vc.assume(st.pc, g)
	}
	// termination of recursion: the callee's measure decreases
	if fc.Decreases != nil && ex.contract != nil && ex.contract.Decreases != nil && ex.sameSCC(fn) {
		m := tc.tr(fc.Decreases.E)
		tc.flush()
		tc0 := ex.contractCtx(ex.entry, ex.entry)
		m0 := tc0.tr(ex.contract.Decreases.E)
		tc0.flush()
		vc.oblige("decreases@"+fn.Name(), "measure decreases at the recursive call and is bounded below", ex.pos(ins.Pos()), st.pc,
			fmt.Sprintf("(and (>= %s 0) (< %s %s))", m.t, m.t, m0.t))
	}
	ts, whole := ex.resolveTargets(tc, fc.Modifies)
	tc.flush()
	for _, t := range ts {
		ex.frameCheck(fr, st, t, ins.Pos())
	}
	for _, k := range sortedKeys(whole) {
		ex.frameCheckWhole(fr, st, k, ins)
	}
	if fc.HavocAll {
		ex.frameCheckAll(fr, st, ins)
		ex.havocAll(st)
	}
	ex.applyHavoc(st, ts, whole)
	if !fc.Pure {
		n := vc.fresh("next", "Int")
		vc.assume("true", fmt.Sprintf("(>= %s %s)", n, st.next))
		st.next = n
	}
	results := fr.freshResults(fn.Signature, st)
	tc2 := &TrCtx{vc: vc, vars: vars, st: st, old: pre, pkg: tc.pkg}
	bindResults(tc2, results, fn.Signature, ex)
	for _, e := range fc.Ensures {
		vc.assume(st.pc, ex.trClause(tc2, e))
	}
	for _, e := range fc.TrustedEnsures {
		vc.assume(st.pc, ex.trClause(tc2, e))
		ex.vc.note("trusted postcondition of %s assumed: %s", fn.Name(), e.Src)
	}
	return results
}

func (ex *Exec) sameSCC(fn *ssa.Function) bool { return fn == ex.top }

// ---------------------------------------------------------------- inlining

func (fr *Frame) inline(ins *ssa.Call, fn *ssa.Function, bindings []Val, args []Val, st *State) []Val {
	ex := fr.ex
	if len(fn.Blocks) == 0 {
		unsup("function %s has no body to inline", fn)
	}
	for _, f := range ex.stack {
		if f == fn {
			unsup("recursive call of %s needs a contract", fn.Name())
		}
	}
	if fr.depth > 10 {
		unsup("inlining depth exceeded at %s", fn.Name())
	}
	ex.stack = append(ex.stack, fn)
	defer func() { ex.stack = ex.stack[:len(ex.stack)-1] }()
	nf := ex.newFrame(fn, fr.depth+1)
	nf.parentScopes = fr.activeScopes()
	for i, p := range fn.Params {
		nf.env[p] = args[i]
	}
	for i, fv := range fn.FreeVars {
		if i < len(bindings) {
			nf.free[fv] = bindings[i]
		}
	}
	rets := nf.run(st.clone())
	if len(rets) == 0 {
		st.dead = true
		return nil
	}
	var sts []*State
	var pcs []string
	for _, r := range rets {
		sts = append(sts, r.st)
		pcs = append(pcs, r.st.pc)
	}
	merged := ex.mergeStates(sts)
	// keep the caller's cells that the merge preserved
	*st = *merged
	n := fn.Signature.Results().Len()
	out := make([]Val, n)
	for i := 0; i < n; i++ {
		var vals []Val
		for _, r := range rets {
			vals = append(vals, r.vals[i])
		}
		out[i] = ex.mergeVals(pcs, vals, ex.eng.S.sortOf(fn.Signature.Results().At(i).Type()))
	}
	return out
}

// splitPack separates a statically known variadic pack from the fixed arguments.
func splitPack(sig *types.Signature, vals []Val, as []TVal) ([]TVal, *[]string) {
	if !sig.Variadic() || len(vals) == 0 || len(vals) != sig.Params().Len() {
		return as, nil
	}
	last := vals[len(vals)-1]
	if !last.elemsKnown {
		return as, nil
	}
	els := append([]string{}, last.elems...)
	return as[:len(as)-1], &els
}

// callDynamic: case split over the closures created in this unit, plus the unknown-callback case.
func (fr *Frame) callDynamic(ins *ssa.Call, c *ssa.CallCommon, fv Val, args []Val, st *State) []Val {
	ex := fr.ex
	type branch struct {
		st   *State
		vals []Val
	}
	var brs []branch
	var ids []string
	for id := range ex.closures {
		ids = append(ids, id)
	}
	sortStrings(ids)
	none := []string{}
	for _, id := range ids {
		cl := ex.closures[id]
		if !types.Identical(cl.fn.Signature.Params(), c.Signature().Params()) || !types.Identical(cl.fn.Signature.Results(), c.Signature().Results()) {
			continue
		}
		none = append(none, not(eq(fv.t, id)))
		bs := st.clone()
		bs.pc = ex.vc.define("pc", "Bool", and(st.pc, eq(fv.t, id)))
		vals := fr.callStatic(ins, cl.fn, cl.bindings, args, bs)
		if !bs.dead {
			brs = append(brs, branch{bs, vals})
		}
	}
	os := st.clone()
	os.pc = ex.vc.define("pc", "Bool", and(append([]string{st.pc}, none...)...))
	ovals := fr.callCallback(ins, c, fv, args, os)
	brs = append(brs, branch{os, ovals})
	var sts []*State
	var pcs []string
	for _, b := range brs {
		sts = append(sts, b.st)
		pcs = append(pcs, b.st.pc)
	}
	merged := ex.mergeStates(sts)
	if len(sts) == 1 {
		merged = sts[0]
	}
	*st = *merged
	n := c.Signature().Results().Len()
	out := make([]Val, n)
	for i := 0; i < n; i++ {
		var vals []Val
		for _, b := range brs {
			vals = append(vals, b.vals[i])
		}
		out[i] = ex.mergeVals(pcs, vals, ex.eng.S.sortOf(c.Signature().Results().At(i).Type()))
	}
	return out
}

func sortStrings(s []string) { sort.Strings(s) }

// fnArgTerm: a function or closure value passed to a callee under contract: its identity is opaque to contracts,
// but it is not nil.
func fnArgTerm(vc *VC, v Val) string {
	f := vc.fresh("fnarg", "Int")
	vc.assume("true", not(eq(f, "0")))
	return f
}

// frameContract: the contract that annotates the function this frame executes (the unit's own contract, or the
// inline contract of an inlined callee).
func (fr *Frame) frameContract() *FuncContract {
	ex := fr.ex
	if fr.fn == ex.top {
		return ex.contract
	}
	for _, c := range ex.eng.contracts[fr.fn] {
		if c.Inline {
			return c
		}
	}
	return nil
}

// callsiteObligations: `callsite F: C` clauses of the calling function are proved at each of its calls of F; in C
// the caller's parameters and locals have their current values and callee_<param> is the actual argument.
func (fr *Frame) callsiteObligations(ins *ssa.Call, fn *ssa.Function, args []Val, st *State) {
	ex := fr.ex
	fc := fr.frameContract()
	if fc == nil || len(fc.Callsites[fn.Name()]) == 0 {
		return
	}
	tc := fr.loopCtx(nil, st)
	for i, p := range fn.Params {
		if i >= len(args) {
			break
		}
		if t, ok := ex.valTermOK(args[i]); ok {
			tc.vars["callee_"+p.Name()] = TVal{t, p.Type()}
		}
	}
	for i, c := range fc.Callsites[fn.Name()] {
		g := ex.trClause(tc, c)
		kind := "callsite@" + fn.Name()
		if fr.fn != ex.top {
			kind += "@" + fr.fn.Name()
		}
		ex.vc.oblige(kind, fmt.Sprintf("call-site condition %d for %s: %s", i+1, fn.Name(), c.Src), ex.pos(ins.Pos()), st.pc, g)
	}
}

// clobberSlice: unknown elements are written into slice v (same length): through the place it was loaded from when
// that is known (a frame-checked store), otherwise the store is dropped with a note.
func (fr *Frame) clobberSlice(st *State, v Val, pos token.Pos, why string) {
	ex := fr.ex
	vc := ex.vc
	S := ex.eng.S
	sn := S.sortOf(v.typ)
	if S.handle[sn] {
		unsup("%s of a recursive element type", why)
	}
	var places []*Place
	if v.backing != nil {
		places = append(places, v.backing)
	}
	if v.origin != nil && v.origin != v.backing {
		places = append(places, v.origin)
	}
	if len(places) == 0 {
		vc.droppedStores++
		vc.note(why + ": the slice has no known origin; the overwrite is dropped (functional posts about that slice are not trusted)")
		return
	}
	es := S.sortOf(v.typ.Underlying().(*types.Slice).Elem())
	for _, pl := range places {
		cur := ex.load(st, pl)
		arr := vc.fresh("clob", "(Array Int "+es+")")
		ns := vc.mkSlice(st, v.typ, arr, fmt.Sprintf("(len_%s %s)", sn, cur.t), fmt.Sprintf("(nil_%s %s)", sn, cur.t))
		ex.store(fr, st, pl, Val{t: vc.define("sl", sn, ns), typ: v.typ, backing: cur.backing}, pos)
	}
}

// listsGhost: the contract of the unit under verification names the ghost in its modifies clause.
func (ex *Exec) listsGhost(g string) bool {
	if ex.contract == nil {
		return false
	}
	for _, m := range ex.contract.Modifies {
		if m.Ghost == g {
			return true
		}
	}
	return false
}
