package main

// Translation of contract expressions into SMT terms over a symbolic state.

import (
	"fmt"
	"go/types"
	"os"
	"strings"
)

type trErr string

func trFail(f string, a ...interface{}) { panic(trErr(fmt.Sprintf(f, a...))) }

type TrCtx struct {
	vc      *VC
	pkg     *types.Package // for resolving type names
	vars    map[string]TVal
	st      *State
	old     *State
	locals  func(name string) (TVal, bool) // loop invariants: current cell contents
	addrOf  func(name string) (TVal, bool) // &name for heap-allocated locals
	bound   []TVal                          // enclosing quantified variables
	noUnfold int
	side    []string // definitional facts produced (unfoldings)
	inOld   bool
	derefs  *[]string // when non-nil: collects "pointer is non-nil" conditions of every dereference performed
	ac      map[string]string // term -> condition under which the term was read from allocated memory
	knownIn map[string]bool   // "mapref|key" pairs known to be in the map's domain
	letDefs []string          // enclosing let bindings (needed when a side fact mentions a let-bound name)
	entryVars map[string]TVal // parameter values on entry (loop invariants: old(p))
}

func (tc *TrCtx) sub() *TrCtx {
	n := *tc
	n.vars = map[string]TVal{}
	for k, v := range tc.vars {
		n.vars[k] = v
	}
	return &n
}

func (tc *TrCtx) S() *Sorts { return tc.vc.eng.S }

// --- heap closure: a pointer or map read from allocated memory is itself allocated.
// Contract expressions get this fact for exactly the access paths they mention.

func (tc *TrCtx) allocated(p string) string {
	return fmt.Sprintf("(and (< 0 %s) (< %s %s))", p, p, tc.st.next)
}

// wrapLets re-binds the enclosing let definitions around a side fact (innermost last).
func (tc *TrCtx) wrapLets(fact string) string {
	for i := len(tc.letDefs) - 1; i >= 0; i-- {
		d := tc.letDefs[i]
		name := d[1:strings.Index(d, " ")]
		if strings.Contains(fact, name) {
			fact = "(let (" + d + ") " + fact + ")"
		}
	}
	return fact
}

func (tc *TrCtx) setAC(t, cond string) {
	if cond == "" || tc.st.next == "" {
		return
	}
	if tc.ac == nil {
		tc.ac = map[string]string{}
	}
	tc.ac[t] = cond
}

func (tc *TrCtx) emitAlloc(v TVal) {
	if tc.ac == nil || tc.st.next == "" {
		return
	}
	c, ok := tc.ac[v.t]
	if !ok {
		return
	}
	ck := "ac\x00" + v.t + "\x00" + tc.st.next + "\x00" + c
	if len(tc.bound) == 0 && len(tc.letDefs) == 0 {
		if tc.vc.factSeen[ck] {
			return
		}
		tc.vc.factSeen[ck] = true
	}
	var fact string
	switch v.typ.Underlying().(type) {
	case *types.Pointer, *types.Map:
		fact = implies(c, fmt.Sprintf("(and (<= 0 %s) (< %s %s))", v.t, v.t, tc.st.next))
	case *types.Slice:
		// type invariant of slice values held in allocated memory
		sn := tc.S().sortOf(v.typ)
		fact = implies(c, fmt.Sprintf("(and (>= (len_%s %s) 0) (=> (nil_%s %s) (= (len_%s %s) 0)))", sn, v.t, sn, v.t, sn, v.t))
	default:
		return
	}
	fact = tc.wrapLets(fact)
	var qs []string
	for _, b := range tc.bound {
		if strings.Contains(fact, b.t) {
			qs = append(qs, fmt.Sprintf("(%s %s)", b.t, tc.S().sortOf(b.typ)))
		}
	}
	if len(qs) > 0 {
		fact = fmt.Sprintf("(forall (%s) %s)", strings.Join(qs, " "), fact)
	}
	tc.side = append(tc.side, fact)
}

// boolean translation entry point; returns term and flushes side facts into the VC.
func (tc *TrCtx) trBool(e Expr) string {
	v := tc.tr(e)
	if tc.S().sortOf(v.typ) != "Bool" {
		trFail("expression %s is not boolean (type %v)", e, v.typ)
	}
	tc.flush()
	return v.t
}

func (tc *TrCtx) flush() {
	for _, f := range tc.side {
		tc.vc.assume("true", f)
	}
	tc.side = nil
}

var (
	tBool   = types.Typ[types.Bool]
	tInt    = types.Typ[types.Int]
	tString = types.Typ[types.String]
)

func isPtr(t types.Type) (*types.Pointer, bool) {
	p, ok := t.Underlying().(*types.Pointer)
	return p, ok
}

func (tc *TrCtx) resolveType(te *TypeExpr) types.Type {
	switch te.Kind {
	case "ptr":
		return types.NewPointer(tc.resolveType(te.Elem))
	case "slice":
		return types.NewSlice(tc.resolveType(te.Elem))
	case "map":
		return types.NewMap(tc.resolveType(te.Key), tc.resolveType(te.Elem))
	case "emptystruct":
		return types.NewStruct(nil, nil)
	}
	if te.Pkg == "" {
		switch te.Name {
		case "string":
			return tString
		case "int":
			return tInt
		case "bool":
			return tBool
		case "any":
			return types.NewInterfaceType(nil, nil)
		case "error":
			return types.Universe.Lookup("error").Type()
		}
		if strings.HasPrefix(te.Name, "set_") {
			// set_string etc.
			return &SetT{Elem: tc.resolveType(&TypeExpr{Kind: "name", Name: te.Name[4:]})}
		}
		if tc.pkg != nil {
			if o := tc.pkg.Scope().Lookup(te.Name); o != nil {
				if tn, ok := o.(*types.TypeName); ok {
					return tn.Type()
				}
			}
		}
		trFail("unknown type %s", te.Name)
	}
	p := tc.vc.eng.findPkg(te.Pkg, tc.pkg)
	if p == nil {
		trFail("unknown package %s", te.Pkg)
	}
	o := p.Scope().Lookup(te.Name)
	if tn, ok := o.(*types.TypeName); ok {
		return tn.Type()
	}
	trFail("unknown type %s.%s", te.Pkg, te.Name)
	return nil
}

// ---- memory access helpers (shared with the executor)

func (vc *VC) loadPtr(st *State, ptr string, elem types.Type) string {
	key, sort := vc.eng.S.heapKeyPtr(elem)
	return fmt.Sprintf("(select %s %s)", vc.heap(st, key, sort), ptr)
}

// sliceArr yields the element array of a slice value.
func (vc *VC) sliceArr(st *State, typ types.Type, t string) string {
	S := vc.eng.S
	sn := S.sortOf(typ)
	if S.handle[sn] {
		k, srt := S.sliceHeap(sn)
		return fmt.Sprintf("(select %s (arr_%s %s))", vc.heap(st, k, srt), sn, t)
	}
	return fmt.Sprintf("(arr_%s %s)", sn, t)
}

// mkSlice builds a slice value over a (fresh) backing array.
func (vc *VC) mkSlice(st *State, typ types.Type, arr, ln, isnil string) string {
	S := vc.eng.S
	sn := S.sortOf(typ)
	if S.handle[sn] {
		k, srt := S.sliceHeap(sn)
		ref := vc.define("sl", "Int", st.next)
		st.next = vc.define("next", "Int", fmt.Sprintf("(+ %s 1)", ref))
		vc.setHeap(st, k, srt, fmt.Sprintf("(store %s %s %s)", vc.heap(st, k, srt), ref, arr))
		return fmt.Sprintf("(mk_%s %s %s %s)", sn, ref, ln, isnil)
	}
	return fmt.Sprintf("(mk_%s %s %s %s)", sn, arr, ln, isnil)
}

func (vc *VC) mapDom(st *State, m *types.Map, ref string) string {
	dk, ds, _, _ := vc.eng.S.heapKeyMap(m)
	return fmt.Sprintf("(select %s %s)", vc.heap(st, dk, ds), ref)
}

func (vc *VC) mapVals(st *State, m *types.Map, ref string) string {
	_, _, vk, vs := vc.eng.S.heapKeyMap(m)
	return fmt.Sprintf("(select %s %s)", vc.heap(st, vk, vs), ref)
}

func (vc *VC) inDom(st *State, m *types.Map, ref, k string) string {
	return fmt.Sprintf("(and (not (= %s 0)) (select %s %s))", ref, vc.mapDom(st, m, ref), k)
}

func (vc *VC) mapGet(st *State, m *types.Map, ref, k string) string {
	return ite(vc.inDom(st, m, ref, k), fmt.Sprintf("(select %s %s)", vc.mapVals(st, m, ref), k), vc.eng.S.zero(m.Elem()))
}

func (vc *VC) mapLen(st *State, m *types.Map, ref string) string {
	S := vc.eng.S
	ks := S.sortOf(m.Key())
	fn := "card_" + sanitize(ks)
	if !S.funcs[fn] {
		S.declareFun(fn, []string{"(Array " + ks + " Bool)"}, "Int")
		S.decls = append(S.decls,
			fmt.Sprintf("(assert (forall ((d (Array %s Bool))) (! (>= (%s d) 0) :pattern ((%s d)))))", ks, fn, fn),
			fmt.Sprintf("(assert (forall ((d (Array %s Bool)) (k %s)) (! (=> (select d k) (> (%s d) 0)) :pattern ((select d k) (%s d)))))", ks, ks, fn, fn),
			fmt.Sprintf("(assert (= (%s ((as const (Array %s Bool)) false)) 0))", fn, ks),
		)
	}
	return ite(eq(ref, "0"), "0", fmt.Sprintf("(%s %s)", fn, vc.mapDom(st, m, ref)))
}

type fieldStep struct {
	idx   int
	deref bool // the container was an embedded pointer that must be dereferenced first
}

// findField locates a (possibly promoted) field by name, ignoring export rules.
func findField(t types.Type, name string) ([]int, types.Type, bool) {
	type item struct {
		t    types.Type
		path []int
	}
	queue := []item{{t, nil}}
	seen := map[string]bool{}
	for len(queue) > 0 {
		var next []item
		for _, it := range queue {
			tt := it.t
			if p, ok := tt.Underlying().(*types.Pointer); ok {
				tt = p.Elem()
			}
			st, ok := tt.Underlying().(*types.Struct)
			if !ok {
				continue
			}
			k := typeKey(tt)
			if seen[k] {
				continue
			}
			seen[k] = true
			for i := 0; i < st.NumFields(); i++ {
				f := st.Field(i)
				if f.Name() == name {
					return append(append([]int{}, it.path...), i), f.Type(), true
				}
				if f.Embedded() {
					next = append(next, item{f.Type(), append(append([]int{}, it.path...), i)})
				}
			}
		}
		queue = next
	}
	return nil, nil, false
}

// selectField applies a field path to a value, dereferencing pointers (embedded or at the root) as needed.
func (tc *TrCtx) selectPath(v TVal, path []int) TVal {
	cur := v
	for _, i := range path {
		if p, ok := isPtr(cur.typ); ok {
			if tc.derefs != nil {
				*tc.derefs = append(*tc.derefs, not(eq(cur.t, "0")))
			}
			ptr := cur.t
			cur = TVal{tc.vc.loadPtr(tc.st, cur.t, p.Elem()), p.Elem()}
			tc.setAC(cur.t, tc.allocated(ptr))
		}
		st := cur.typ.Underlying().(*types.Struct)
		info := tc.S().structInfoOf(cur.typ)
		prev := cur.t
		cur = TVal{fmt.Sprintf("(%s %s)", info.fields[i], cur.t), st.Field(i).Type()}
		if tc.ac != nil {
			tc.setAC(cur.t, tc.ac[prev])
		}
		tc.emitAlloc(cur)
	}
	return cur
}

// tr translates an expression; large closed subterms are given names so that formulas stay small.
func (tc *TrCtx) tr(e Expr) TVal {
	v := tc.tr0(e)
	if tc.st == nil || tc.st.param || len(v.t) < 48 || strings.Contains(v.t, "!q") || strings.HasPrefix(v.t, "(forall") || strings.HasPrefix(v.t, "(exists") {
		return v
	}
	if _, isNil := v.typ.(*types.Basic); isNil && isNilType(v.typ) {
		return v
	}
	name := tc.vc.define("e", tc.S().sortOf(v.typ), v.t)
	if tc.ac != nil {
		if c, ok := tc.ac[v.t]; ok {
			tc.ac[name] = c
		}
	}
	return TVal{name, v.typ}
}

func (tc *TrCtx) tr0(e Expr) TVal {
	S := tc.S()
	switch e := e.(type) {
	case *EInt:
		if e.V < 0 {
			return TVal{fmt.Sprintf("(- %d)", -e.V), tInt}
		}
		return TVal{fmt.Sprint(e.V), tInt}
	case *EStr:
		return TVal{S.strLit(e.V), tString}
	case *EBool:
		return TVal{fmt.Sprint(e.V), tBool}
	case *ENil:
		return TVal{"0", types.Typ[types.UntypedNil]}
	case *EIdent:
		if tc.inOld && tc.entryVars != nil {
			// inside old(): a parameter name denotes its value on entry
			if v, ok := tc.entryVars[e.Name]; ok {
				return v
			}
		}
		if v, ok := tc.vars[e.Name]; ok {
			return v
		}
		if g, ok := tc.st.ghosts[e.Name]; ok {
			return g
		}
		if tc.locals != nil {
			if v, ok := tc.locals(e.Name); ok {
				return v
			}
		}
		trFail("unknown identifier %s", e.Name)
	case *EAddr:
		if tc.addrOf != nil {
			if v, ok := tc.addrOf(e.Name); ok {
				return v
			}
		}
		trFail("cannot take address of %s (not a heap-allocated local)", e.Name)
	case *EOld:
		if tc.old == nil {
			trFail("old() not available here")
		}
		n := *tc
		n.st = tc.old
		n.inOld = true
		n.side = nil
		n.ac = nil
		v := n.tr(e.X)
		tc.side = append(tc.side, n.side...)
		return v
	case *EUnary:
		switch e.Op {
		case "!":
			v := tc.tr(e.X)
			return TVal{not(v.t), tBool}
		case "-":
			v := tc.tr(e.X)
			return TVal{"(- " + v.t + ")", v.typ}
		case "*":
			v := tc.tr(e.X)
			p, ok := isPtr(v.typ)
			if !ok {
				trFail("cannot dereference %s of type %v", e.X, v.typ)
			}
			if tc.derefs != nil {
				*tc.derefs = append(*tc.derefs, not(eq(v.t, "0")))
			}
			r := TVal{tc.vc.loadPtr(tc.st, v.t, p.Elem()), p.Elem()}
			tc.setAC(r.t, tc.allocated(v.t))
			tc.emitAlloc(r)
			return r
		}
	case *EBinary:
		return tc.trBinary(e)
	case *EField:
		if call, ok := e.X.(*ECall); ok && len(e.Name) == 1 && e.Name[0] >= '0' && e.Name[0] <= '9' {
			// f(args).N : the N-th result (0-based) of a pure multi-result function
			return tc.trCallResult(call, int(e.Name[0]-'0'))
		}
		if id, ok := e.X.(*EIdent); ok {
			if _, isVar := tc.vars[id.Name]; !isVar {
				if r := tc.tryResultIndex(id.Name, e.Name); r != nil {
					return *r
				}
			}
		}
		if id, ok := e.X.(*EIdent); ok {
			if _, isVar := tc.vars[id.Name]; !isVar {
				if _, isLocal := tc.lookupLocal(id.Name); !isLocal {
					if p := tc.vc.eng.findPkg(id.Name, tc.pkg); p != nil {
						if gv, ok := p.Scope().Lookup(e.Name).(*types.Var); ok {
							ref := tc.vc.globalRef(p.Path(), p.Name(), e.Name)
							return TVal{tc.vc.loadPtr(tc.st, ref, gv.Type()), gv.Type()}
						}
					}
				}
			}
		}
		v := tc.tr(e.X)
		path, _, ok := findField(v.typ, e.Name)
		if !ok {
			trFail("no field %s in %v", e.Name, v.typ)
		}
		return tc.selectPath(v, path)
	case *EIndex:
		x := tc.tr(e.X)
		i := tc.tr(e.I)
		switch u := x.typ.Underlying().(type) {
		case *types.Map:
			kt := tc.coerce(i, u.Key()).t
			r := TVal{tc.vc.mapGet(tc.st, u, x.t, kt), u.Elem()}
			if tc.knownIn[x.t+"|"+kt] && !tc.inOld {
				r.t = fmt.Sprintf("(select %s %s)", tc.vc.mapVals(tc.st, u, x.t), kt)
			}
			tc.setAC(r.t, tc.allocated(x.t))
			tc.emitAlloc(r)
			return r
		case *types.Slice:
			r := TVal{fmt.Sprintf("(select %s %s)", tc.vc.sliceArr(tc.st, x.typ, x.t), i.t), u.Elem()}
			if tc.ac != nil {
				tc.setAC(r.t, tc.ac[x.t])
			}
			if os.Getenv("GOVC_NOSLICEAC") == "" {
				tc.emitAlloc(r)
			}
			return r
		case *types.Array:
			return TVal{fmt.Sprintf("(select %s %s)", x.t, i.t), u.Elem()}
		case *SetT:
			return TVal{fmt.Sprintf("(select %s %s)", x.t, i.t), tBool}
		}
		trFail("cannot index %s of type %v", e.X, x.typ)
	case *EIn:
		k := tc.tr(e.K)
		if e.Dom != nil {
			m := tc.tr(e.Dom)
			mt, ok := m.typ.Underlying().(*types.Map)
			if !ok {
				trFail("dom() of non-map %s (%v)", e.Dom, m.typ)
			}
			return TVal{tc.vc.inDom(tc.st, mt, m.t, tc.coerce(k, mt.Key()).t), tBool}
		}
		s := tc.tr(e.Set)
		if _, ok := s.typ.(*SetT); !ok {
			trFail("'in' needs a set, got %v", s.typ)
		}
		return TVal{fmt.Sprintf("(select %s %s)", s.t, k.t), tBool}
	case *EIte:
		c := tc.tr(e.C)
		a := tc.tr(e.A)
		b := tc.tr(e.B)
		b = tc.coerce(b, a.typ)
		a = tc.coerce(a, b.typ)
		return TVal{ite(c.t, a.t, b.t), a.typ}
	case *EWith:
		x := tc.tr(e.X)
		cur := x
		for i, f := range e.Fields {
			path, ft, ok := findField(x.typ, f)
			if !ok {
				trFail("no field %s in %v", f, x.typ)
			}
			v := tc.coerce(tc.tr(e.Vals[i]), ft)
			cur = TVal{tc.updatePath(cur, path, v.t), x.typ}
		}
		return cur
	case *EQuant:
		return tc.trQuant(e)
	case *ECall:
		return tc.trCall(e)
	case *ETypeIs:
		x := tc.tr(e.X)
		t := tc.resolveType(e.T)
		return TVal{fmt.Sprintf("(= (typetag %s) %d)", x.t, S.tagOf(t)), tBool}
	case *ECast:
		x := tc.tr(e.X)
		t := tc.resolveType(e.T)
		return TVal{S.unbox(t, x.t), t}
	}
	trFail("cannot translate %s (%T)", e, e)
	return TVal{}
}

// trCallResult: pkg.Func(args).N for pure external functions with several results.
func (tc *TrCtx) trCallResult(e *ECall, n int) TVal {
	id, ok := e.Recv.(*EIdent)
	if !ok {
		trFail("result selection needs pkg.Func(args).N")
	}
	p := tc.vc.eng.findPkg(id.Name, tc.pkg)
	if p == nil {
		trFail("unknown package %s", id.Name)
	}
	fo, ok := p.Scope().Lookup(e.Fun).(*types.Func)
	if !ok {
		trFail("unknown function %s.%s", id.Name, e.Fun)
	}
	var args []TVal
	for _, a := range e.Args {
		args = append(args, tc.tr(a))
	}
	rs := tc.vc.eng.pureAppN(tc.vc, tc.st, fo, nil, args, nil)
	if n >= len(rs) {
		trFail("%s.%s has %d results", id.Name, e.Fun, len(rs))
	}
	return rs[n]
}

func (tc *TrCtx) lookupLocal(name string) (TVal, bool) {
	if tc.locals == nil {
		return TVal{}, false
	}
	defer func() { recover() }()
	return tc.locals(name)
}

func (tc *TrCtx) tryResultIndex(id, field string) *TVal {
	if id != "result" {
		return nil
	}
	if v, ok := tc.vars["result."+field]; ok {
		return &v
	}
	return nil
}

// updatePath builds the struct value v with the field at path replaced (no pointer hops allowed).
func (tc *TrCtx) updatePath(v TVal, path []int, nv string) string {
	if len(path) == 0 {
		return nv
	}
	st, ok := v.typ.Underlying().(*types.Struct)
	if !ok {
		trFail("with{}: cannot update through %v", v.typ)
	}
	info := tc.S().structInfoOf(v.typ)
	var b strings.Builder
	b.WriteString("(" + info.ctor)
	for i := 0; i < st.NumFields(); i++ {
		fv := fmt.Sprintf("(%s %s)", info.fields[i], v.t)
		if i == path[0] {
			fv = tc.updatePath(TVal{fv, st.Field(i).Type()}, path[1:], nv)
		}
		b.WriteString(" " + fv)
	}
	b.WriteString(")")
	return b.String()
}

func isNilType(t types.Type) bool {
	b, ok := t.(*types.Basic)
	return ok && b.Kind() == types.UntypedNil
}

// coerce adapts nil literals to the target type.
func (tc *TrCtx) coerce(v TVal, to types.Type) TVal {
	if isNilType(v.typ) && !isNilType(to) {
		return TVal{tc.S().zero(to), to}
	}
	return v
}

func (tc *TrCtx) trBinary(e *EBinary) TVal {
	S := tc.S()
	switch e.Op {
	case "&&", "||", "==>", "<==>":
		x := tc.tr(e.X)
		y := tc.tr(e.Y)
		switch e.Op {
		case "&&":
			return TVal{and(x.t, y.t), tBool}
		case "||":
			return TVal{or(x.t, y.t), tBool}
		case "==>":
			return TVal{implies(x.t, y.t), tBool}
		default:
			return TVal{"(= " + x.t + " " + y.t + ")", tBool}
		}
	case "==", "!=":
		x := tc.tr(e.X)
		y := tc.tr(e.Y)
		x = tc.coerce(x, y.typ)
		y = tc.coerce(y, x.typ)
		var t string
		if _, isSlice := x.typ.Underlying().(*types.Slice); isSlice && (isNilLit(e.X) || isNilLit(e.Y)) {
			sn := S.sortOf(x.typ)
			other := x
			if isNilLit(e.X) {
				other = y
			}
			t = fmt.Sprintf("(nil_%s %s)", sn, other.t)
		} else {
			if S.sortOf(x.typ) != S.sortOf(y.typ) {
				trFail("comparing %v with %v in %s", x.typ, y.typ, e)
			}
			t = eq(x.t, y.t)
		}
		if e.Op == "!=" {
			t = not(t)
		}
		return TVal{t, tBool}
	case "<", "<=", ">", ">=":
		x := tc.tr(e.X)
		y := tc.tr(e.Y)
		if S.sortOf(x.typ) == "Str" {
			switch e.Op {
			case "<":
				return TVal{fmt.Sprintf("(strlt %s %s)", x.t, y.t), tBool}
			case ">":
				return TVal{fmt.Sprintf("(strlt %s %s)", y.t, x.t), tBool}
			case "<=":
				return TVal{fmt.Sprintf("(not (strlt %s %s))", y.t, x.t), tBool}
			default:
				return TVal{fmt.Sprintf("(not (strlt %s %s))", x.t, y.t), tBool}
			}
		}
		return TVal{fmt.Sprintf("(%s %s %s)", e.Op, x.t, y.t), tBool}
	case "+", "-":
		x := tc.tr(e.X)
		y := tc.tr(e.Y)
		if S.sortOf(x.typ) == "Str" {
			return TVal{fmt.Sprintf("(sconcat %s %s)", x.t, y.t), tString}
		}
		if _, ok := x.typ.(*SetT); ok { // set union / difference
			if e.Op == "+" {
				return TVal{fmt.Sprintf("((_ map or) %s %s)", x.t, y.t), x.typ}
			}
		}
		return TVal{fmt.Sprintf("(%s %s %s)", e.Op, x.t, y.t), x.typ}
	}
	trFail("unknown operator %s", e.Op)
	return TVal{}
}

func isNilLit(e Expr) bool { _, ok := e.(*ENil); return ok }

func (tc *TrCtx) trQuant(e *EQuant) TVal {
	S := tc.S()
	n := tc.sub()
	tc.vc.n++
	vname := fmt.Sprintf("%s!q%d", e.Var, tc.vc.n)
	var vt types.Type
	var guard string
	switch {
	case e.Type != nil:
		vt = tc.resolveType(e.Type)
	case e.Dom != nil:
		m := tc.tr(e.Dom)
		mt, ok := m.typ.Underlying().(*types.Map)
		if !ok {
			trFail("dom() of non-map %s", e.Dom)
		}
		vt = mt.Key()
		guard = tc.vc.inDom(tc.st, mt, m.t, vname)
		if !tc.inOld {
			n.knownIn = map[string]bool{m.t + "|" + vname: true}
			for k := range tc.knownIn {
				n.knownIn[k] = true
			}
		}
	case e.Set != nil:
		s := tc.tr(e.Set)
		st, ok := s.typ.(*SetT)
		if !ok {
			trFail("quantifier domain %s is not a set (%v)", e.Set, s.typ)
		}
		vt = st.Elem
		guard = fmt.Sprintf("(select %s %s)", s.t, vname)
	default:
		lo := tc.tr(e.Lo)
		hi := tc.tr(e.Hi)
		vt = tInt
		guard = fmt.Sprintf("(and (<= %s %s) (< %s %s))", lo.t, vname, vname, hi.t)
	}
	bv := TVal{vname, vt}
	n.vars[e.Var] = bv
	n.bound = append(append([]TVal{}, tc.bound...), bv)
	n.side = nil
	body := n.tr(e.Body)
	tc.side = append(tc.side, n.side...)
	var t string
	if e.Forall {
		inner := implies(guard2(guard), body.t)
		if len(e.Triggers) > 0 {
			inner = "(! " + inner
			for _, tr := range e.Triggers {
				tv := n.tr0(tr)
				inner += " :pattern (" + tv.t + ")"
			}
			inner += ")"
		} else if e.Type != nil && S.sortOf(vt) == "Int" {
			// quantification over references: trigger on every heap read at the bound reference
			if pats := heapReadPatterns(inner, vname); len(pats) > 0 {
				inner = "(! " + inner
				for _, p := range pats {
					inner += " :pattern (" + p + ")"
				}
				inner += ")"
			}
		}
		t = fmt.Sprintf("(forall ((%s %s)) %s)", vname, S.sortOf(vt), inner)
	} else {
		t = fmt.Sprintf("(exists ((%s %s)) %s)", vname, S.sortOf(vt), and(guard2(guard), body.t))
	}
	return TVal{t, tBool}
}

func guard2(g string) string {
	if g == "" {
		return "true"
	}
	return g
}

func (tc *TrCtx) trCall(e *ECall) TVal {
	S := tc.S()
	vc := tc.vc
	if e.Recv != nil {
		// pkg.Func(args) or value.Method(args)
		if id, ok := e.Recv.(*EIdent); ok {
			if _, isVar := tc.vars[id.Name]; !isVar {
				if p := vc.eng.findPkg(id.Name, tc.pkg); p != nil {
					if fo, ok := p.Scope().Lookup(e.Fun).(*types.Func); ok {
						var args []TVal
						for _, a := range e.Args {
							args = append(args, tc.tr(a))
						}
						return vc.eng.pureApp(vc, tc.st, fo, nil, args)
					}
					trFail("unknown function %s.%s", id.Name, e.Fun)
				}
			}
		}
		recv := tc.tr(e.Recv)
		obj, index, _ := types.LookupFieldOrMethod(recv.typ, true, nil, e.Fun)
		fo, ok := obj.(*types.Func)
		if ok && len(index) > 1 {
			// promoted method: descend to the embedded receiver
			recv = tc.selectPath(recv, index[:len(index)-1])
		}
		if !ok {
			// unexported method of another package
			fo = lookupMethodAnyPkg(recv.typ, e.Fun)
			if fo == nil {
				trFail("no method %s on %v", e.Fun, recv.typ)
			}
		}
		var args []TVal
		for _, a := range e.Args {
			args = append(args, tc.tr(a))
		}
		return vc.eng.pureApp(vc, tc.st, fo, &recv, args)
	}
	switch e.Fun {
	case "len":
		x := tc.tr(e.Args[0])
		switch u := x.typ.Underlying().(type) {
		case *types.Map:
			return TVal{vc.mapLen(tc.st, u, x.t), tInt}
		case *types.Slice:
			return TVal{fmt.Sprintf("(len_%s %s)", S.sortOf(x.typ), x.t), tInt}
		case *types.Basic:
			return TVal{fmt.Sprintf("(strlen %s)", x.t), tInt}
		}
		trFail("len of %v", x.typ)
	case "dom":
		x := tc.tr(e.Args[0])
		mt, ok := x.typ.Underlying().(*types.Map)
		if !ok {
			trFail("dom of non-map")
		}
		ks := S.sortOf(mt.Key())
		return TVal{ite(eq(x.t, "0"), fmt.Sprintf("((as const (Array %s Bool)) false)", ks), vc.mapDom(tc.st, mt, x.t)), &SetT{mt.Key()}}
	case "fresh":
		x := tc.tr(e.Args[0])
		if tc.old == nil {
			trFail("fresh() needs an entry state")
		}
		return TVal{fmt.Sprintf("(>= %s %s)", x.t, tc.old.next), tBool}
	case "allocated":
		x := tc.tr(e.Args[0])
		return TVal{fmt.Sprintf("(and (< 0 %s) (< %s %s))", x.t, x.t, tc.st.next), tBool}
	case "sprintf":
		f := tc.tr(e.Args[0])
		var args []TVal
		for _, a := range e.Args[1:] {
			args = append(args, tc.tr(a))
		}
		return TVal{vc.eng.sprintfTerm(vc, tc.st, f, args), tString}
	case "box":
		x := tc.tr(e.Args[0])
		return TVal{S.box(x.typ, x.t), types.NewInterfaceType(nil, nil)}
	case "distinct":
		var ts []string
		for _, a := range e.Args {
			ts = append(ts, tc.tr(a).t)
		}
		return TVal{"(distinct " + strings.Join(ts, " ") + ")", tBool}
	case "substr":
		// substr(s, lo, hi): the Go slice expression s[lo:hi] on strings (same uninterpreted symbol as in code)
		x, lo, hi := tc.tr(e.Args[0]), tc.tr(e.Args[1]), tc.tr(e.Args[2])
		return TVal{fmt.Sprintf("(substr %s %s %s)", x.t, lo.t, hi.t), tString}
	case "isnil":
		x := tc.tr(e.Args[0])
		if _, ok := x.typ.Underlying().(*types.Slice); ok {
			return TVal{fmt.Sprintf("(nil_%s %s)", S.sortOf(x.typ), x.t), tBool}
		}
		return TVal{eq(x.t, S.zero(x.typ)), tBool}
	case "empty":
		t := tc.resolveType(exprToType(e.Args[0]))
		return TVal{fmt.Sprintf("((as const (Array %s Bool)) false)", S.sortOf(t)), &SetT{t}}
	case "add":
		s := tc.tr(e.Args[0])
		k := tc.tr(e.Args[1])
		return TVal{fmt.Sprintf("(store %s %s true)", s.t, k.t), s.typ}
	}
	sf := vc.eng.funs[e.Fun]
	if sf == nil {
		// a pure function of the package under contract
		if tc.pkg != nil {
			if fo, ok := tc.pkg.Scope().Lookup(e.Fun).(*types.Func); ok {
				if fn := vc.eng.prog.FuncValue(fo); fn != nil {
					if fc := vc.eng.contractFor(fn, "main"); fc != nil && fc.Pure {
						var args []TVal
						for _, a := range e.Args {
							args = append(args, tc.tr(a))
						}
						return vc.eng.pureApp(vc, tc.st, fo, nil, args)
					}
				}
			}
		}
		trFail("unknown spec function %s", e.Fun)
	}
	if len(e.Args) != len(sf.def.Params) {
		trFail("spec function %s expects %d arguments", e.Fun, len(sf.def.Params))
	}
	var args []TVal
	for i, a := range e.Args {
		v := tc.tr(a)
		v = tc.coerce(v, sf.ptypes[i])
		if S.sortOf(v.typ) != S.sortOf(sf.ptypes[i]) {
			trFail("argument %d of %s: have %v, want %v", i+1, e.Fun, v.typ, sf.ptypes[i])
		}
		args = append(args, v)
	}
	if !sf.recursive && !sf.def.Opaque && sf.def.Body != nil && !tc.st.param {
		// transparent spec function: expanded in place (so that facts about its heap reads are produced in context)
		n := tc.sub()
		n.vars = map[string]TVal{}
		var lets []string
		for i, p := range sf.def.Params {
			a := args[i]
			if len(a.t) > 40 {
				// large (open) argument: bind it once
				tc.vc.n++
				ln := fmt.Sprintf("%s!q%dl", p.Name, tc.vc.n)
				lets = append(lets, fmt.Sprintf("(%s %s)", ln, a.t))
				if tc.ac != nil {
					if c, ok := tc.ac[a.t]; ok {
						tc.ac[ln] = c
					}
				}
				a = TVal{ln, a.typ}
			}
			n.vars[p.Name] = a
		}
		n.pkg = sf.pkg
		n.locals, n.addrOf, n.old = nil, nil, nil
		n.side = nil
		n.letDefs = append(append([]string{}, tc.letDefs...), lets...)
		body := n.tr(sf.def.Body)
		body = n.coerce(body, sf.rtype)
		tc.side = append(tc.side, n.side...)
		t := body.t
		if len(lets) > 0 {
			t = "(let (" + strings.Join(lets, " ") + ") " + t + ")"
		}
		return TVal{t, sf.rtype}
	}
	app := vc.eng.applySpecFun(vc, tc.st, sf, args)
	if sf.recursive && sf.def.Body != nil && tc.noUnfold == 0 {
		tc.unfold(sf, args, app)
	}
	return TVal{app, sf.rtype}
}

func exprToType(e Expr) *TypeExpr {
	switch e := e.(type) {
	case *EIdent:
		return &TypeExpr{Kind: "name", Name: e.Name}
	case *EField:
		if id, ok := e.X.(*EIdent); ok {
			return &TypeExpr{Kind: "name", Pkg: id.Name, Name: e.Name}
		}
	case *EUnary:
		if e.Op == "*" {
			return &TypeExpr{Kind: "ptr", Elem: exprToType(e.X)}
		}
	}
	trFail("type expected, got %s", e)
	return nil
}

// unfold emits one level of the definition of a recursive spec function at these arguments.
func (tc *TrCtx) unfold(sf *SpecFunInfo, args []TVal, app string) {
	n := tc.sub()
	n.vars = map[string]TVal{}
	for i, p := range sf.def.Params {
		n.vars[p.Name] = args[i]
	}
	n.pkg = sf.pkg
	n.noUnfold = 1
	n.locals, n.addrOf, n.old = nil, nil, nil
	n.side = nil
	body := n.tr(sf.def.Body)
	body = n.coerce(body, sf.rtype)
	fact := fmt.Sprintf("(= %s %s)", app, body.t)
	// quantify over enclosing bound variables that occur in the application
	var qs []string
	for _, b := range tc.bound {
		if strings.Contains(app, b.t) {
			qs = append(qs, fmt.Sprintf("(%s %s)", b.t, tc.S().sortOf(b.typ)))
		}
	}
	if len(qs) > 0 {
		if strings.Contains(app, "(ite ") || strings.Contains(app, "(and ") || strings.Contains(app, "(not ") || strings.Contains(app, "(= ") || strings.Contains(app, "(let ") {
			fact = fmt.Sprintf("(forall (%s) %s)", strings.Join(qs, " "), fact)
		} else {
			fact = fmt.Sprintf("(forall (%s) (! %s :pattern (%s)))", strings.Join(qs, " "), fact, app)
		}
	}
	fact = tc.wrapLets(fact)
	tc.side = append(tc.side, fact)
}

func lookupMethodAnyPkg(t types.Type, name string) *types.Func {
	try := func(tt types.Type) *types.Func {
		if n, ok := tt.(*types.Named); ok {
			for i := 0; i < n.NumMethods(); i++ {
				if n.Method(i).Name() == name {
					return n.Method(i)
				}
			}
		}
		return nil
	}
	if f := try(t); f != nil {
		return f
	}
	if p, ok := t.(*types.Pointer); ok {
		return try(p.Elem())
	}
	return nil
}

// heapReadPatterns finds the terms (select <heap> v) in t.
func heapReadPatterns(t, v string) []string {
	var out []string
	seen := map[string]bool{}
	suffix := " " + v + ")"
	for i := 0; i+8 < len(t); i++ {
		if !strings.HasPrefix(t[i:], "(select ") {
			continue
		}
		j := i + 8
		k := j
		for k < len(t) && t[k] != ' ' && t[k] != '(' && t[k] != ')' {
			k++
		}
		if k > j && strings.HasPrefix(t[k:], suffix) {
			p := t[i : k+len(suffix)]
			if !seen[p] {
				seen[p] = true
				out = append(out, p)
			}
		}
	}
	return out
}
