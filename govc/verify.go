package main

import (
	"fmt"
	"go/types"
	"strings"

	"golang.org/x/tools/go/ssa"
)

type UnitResult struct {
	Func     string
	Aspect   string
	Contract *FuncContract
	VC       *VC
	Err      string // unsupported construct or contract error: the unit is NOT verified
	ErrKind  string // "unsupported" | "contract"
	Callees  []string
}

// contractCtx builds a translation context for the top-level function's contract clauses.
func (ex *Exec) contractCtx(st, old *State) *TrCtx {
	tc := &TrCtx{vc: ex.vc, vars: map[string]TVal{}, st: st, old: old}
	if ex.top.Pkg != nil {
		tc.pkg = ex.top.Pkg.Pkg
	}
	for k, v := range ex.paramVals {
		tc.vars[k] = v
	}
	return tc
}

func (e *Engine) verifyFunc(fn *ssa.Function, fc *FuncContract, safety bool) (res *UnitResult) {
	name := shortFuncName(fn)
	if fc.Aspect != "main" {
		name += "/" + fc.Aspect
	}
	vc := e.newVC(name)
	res = &UnitResult{Func: fn.String(), Aspect: fc.Aspect, Contract: fc, VC: vc}
	ex := &Exec{vc: vc, eng: e, top: fn, contract: fc, aspect: fc.Aspect, paramVals: map[string]TVal{}, nilChecked: map[string]bool{}, safety: safety, frames: fc.HasMod && !fc.NoFrame, calleeNote: map[string]bool{}}
	defer func() {
		for k := range ex.calleeNote {
			res.Callees = append(res.Callees, k)
		}
		if r := recover(); r != nil {
			switch x := r.(type) {
			case unsupported:
				res.Err, res.ErrKind = string(x), "unsupported"
			case trErr:
				res.Err, res.ErrKind = string(x), "contract"
			default:
				panic(r)
			}
		}
	}()
	st := &State{pc: "true", cells: map[*ssa.Alloc]Val{}, heaps: map[string]string{}, ghosts: map[string]TVal{}}
	st.next = vc.fresh("next0", "Int")
	vc.assume("true", fmt.Sprintf("(> %s 0)", st.next))
	for _, g := range e.cs.Ghosts {
		st.ghosts[g] = TVal{vc.fresh("gh_"+g, "Bool"), tBool}
	}
	fr := ex.newFrame(fn, 0)
	fr.isTop = true
	for _, p := range fn.Params {
		v := Val{t: vc.fresh("p_"+sanitize(p.Name()), e.S.sortOf(p.Type())), typ: p.Type()}
		if _, isSig := p.Type().Underlying().(*types.Signature); isSig {
			vc.assume("true", fmt.Sprintf("(>= %s 0)", v.t))
		}
		ex.assumeAllocated(st, v)
		fr.env[p] = v
		ex.paramVals[p.Name()] = TVal{v.t, p.Type()}
	}
	if len(fn.FreeVars) > 0 {
		unsup("closure %s cannot be verified on its own", fn.Name())
	}
	tc := ex.contractCtx(st, st)
	for _, r := range fc.Requires {
		vc.assume("true", ex.trClause(tc, r))
	}
	ex.entry = st.clone()
	if ex.frames {
		ts, whole := ex.resolveTargets(tc, fc.Modifies)
		tc.flush()
		var srcs []string
		for _, m := range fc.Modifies {
			srcs = append(srcs, m.Src)
		}
		ex.topScope = &scope{name: "function", kind: "func", freshFrom: ex.entry.next, targets: ts, wholeHeaps: whole, srcs: srcs}
	}
	ex.stack = []*ssa.Function{fn}
	rets := fr.run(st)
	if len(rets) == 0 {
		vc.note("no normal return path")
		return res
	}
	var sts []*State
	var pcs []string
	for _, r := range rets {
		sts = append(sts, r.st)
		pcs = append(pcs, r.st.pc)
	}
	final := ex.mergeStates(sts)
	n := fn.Signature.Results().Len()
	results := make([]Val, n)
	for i := 0; i < n; i++ {
		var vals []Val
		for _, r := range rets {
			vals = append(vals, r.vals[i])
		}
		results[i] = ex.mergeVals(pcs, vals, e.S.sortOf(fn.Signature.Results().At(i).Type()))
	}
	tcp := ex.contractCtx(final, ex.entry)
	bindResults(tcp, results, fn.Signature, ex)
	// vacuity probe: the exit must be reachable under the assumptions (before the postconditions are assumed: a
	// postcondition that fails is then assumed for the later ones and may contradict the facts)
	o := vc.oblige("cover-exit", "vacuity probe: 'false' at the normal exit must NOT be provable", "", final.pc, "false")
	o.Cover = true
	for i, en := range fc.Ensures {
		g := ex.trClause(tcp, en)
		vc.oblige("post", fmt.Sprintf("postcondition %d: %s", i+1, en.Src), fmt.Sprintf("%s:%d", relFile(en.File), en.Line), final.pc, g)
		// later postconditions may use earlier ones (each is proved on its own, or reported)
		vc.assume(final.pc, g)
	}
	return res
}

func shortFuncName(fn *ssa.Function) string {
	s := fn.String()
	if i := strings.LastIndex(s, "/"); i >= 0 {
		s = s[i+1:]
	}
	s = strings.NewReplacer("(", "", ")", "", "*", "").Replace(s)
	return s
}

// verifyLemma: a closed formula of the contract language proved from the prelude and the axioms.
func (e *Engine) verifyLemma(ax *Axiom) (res *UnitResult) {
	vc := e.newVC("lemma:" + ax.Name)
	res = &UnitResult{Func: "lemma " + ax.Name, Aspect: "main", VC: vc}
	defer func() {
		if r := recover(); r != nil {
			switch x := r.(type) {
			case trErr:
				res.Err, res.ErrKind = string(x), "contract"
			default:
				panic(r)
			}
		}
	}()
	st := &State{pc: "true", cells: map[*ssa.Alloc]Val{}, heaps: map[string]string{}, ghosts: map[string]TVal{}, next: "1"}
	tc := &TrCtx{vc: vc, vars: map[string]TVal{}, st: st, old: st}
	if ax.PkgPath != "" {
		tc.pkg = e.tpkgs[ax.PkgPath]
	} else {
		tc.pkg = e.tpkgs[e.modPath]
	}
	g := tc.trBool(ax.E)
	o := vc.oblige("lemma", ax.Src, fmt.Sprintf("%s:%d", relFile(ax.File), ax.Line), "true", g)
	for i, a := range e.cs.Axioms {
		if a == ax {
			o.axLimit = i
		}
	}
	return res
}

type axFact struct {
	idx   int
	lemma bool
	lines []string
}

// axiomFacts translates all axioms and lemmas once. Axioms are part of every query; a lemma is assumed by
// function obligations and by lemmas declared after it (it is proved on its own from what precedes it).
func (e *Engine) axiomFacts() ([]axFact, error) {
	var all []axFact
	var err error
	for idx, ax := range e.cs.Axioms {
		var out []string
		func() {
			defer func() {
				if r := recover(); r != nil {
					if te, ok := r.(trErr); ok {
						err = fmt.Errorf("%s:%d: axiom %s: %s", ax.File, ax.Line, ax.Name, string(te))
						return
					}
					panic(r)
				}
			}()
			vc := e.newVC("axiom")
			rec := map[string]bool{}
			st := &State{pc: "true", cells: map[*ssa.Alloc]Val{}, heaps: map[string]string{}, ghosts: map[string]TVal{}, next: "", param: true, record: rec}
			tc := &TrCtx{vc: vc, vars: map[string]TVal{}, st: st, old: st}
			if ax.PkgPath != "" {
				tc.pkg = e.tpkgs[ax.PkgPath]
			} else {
				tc.pkg = e.tpkgs[e.modPath]
			}
			g := tc.trBool(ax.E)
			out = append(out, vc.items...)
			if len(rec) > 0 {
				// the axiom reads heaps: it is stated for every heap (heap variables universally quantified)
				var qs []string
				for _, k := range sortedKeys(rec) {
					qs = append(qs, fmt.Sprintf("(hp_%s %s)", k, e.heapSorts[k]))
				}
				g = fmt.Sprintf("(forall (%s) %s)", strings.Join(qs, " "), g)
			}
			out = append(out, fmt.Sprintf("(assert %s) ; %s", g, ax.Name))
		}()
		all = append(all, axFact{idx: idx, lemma: ax.Lemma, lines: out})
	}
	return all, err
}

// calleeContract selects the contract used at call sites of fn inside the unit being verified.
func (ex *Exec) calleeContract(fn *ssa.Function) *FuncContract {
	if ex.contract != nil && ex.contract.Uses != nil {
		if a, ok := ex.contract.Uses[fn.Name()]; ok {
			for _, c := range ex.eng.contracts[fn] {
				if c.Aspect == a {
					return c
				}
			}
		}
	}
	return ex.eng.contractFor(fn, ex.aspect)
}

// externFor selects the dependency contract for the unit being verified: the one of the unit's aspect if there is
// one, else the main one.
func (ex *Exec) externFor(name string) *FuncContract {
	if ex.aspect != "" && ex.aspect != "main" {
		if fc := ex.eng.externs[name+"\x00"+ex.aspect]; fc != nil {
			return fc
		}
	}
	return ex.eng.externs[name]
}
