package main

// Mapping of Go types to SMT sorts, declared on demand.
//
// Memory model (DESIGN §2.3, as built):
//   int kinds      -> Int (mathematical; assumption A-ARITH)
//   string         -> Str (uninterpreted sort; literals are distinct constants)
//   *T, map, func  -> Int (0 = nil); contents live in per-type heaps
//   []T            -> datatype Slice_T(arr: Array Int T, len: Int, nil: Bool), by value (A-APPEND)
//   [N]T           -> Array Int T
//   struct         -> datatype with one constructor
//   interface      -> Iface (uninterpreted) with typetag/box/unbox functions

import (
	"fmt"
	"go/types"
	"sort"
	"strings"
)

type Sorts struct {
	decls   []string          // emitted declarations, in order
	declCache []declInfo      // per-declaration symbol analysis (prune.go)
	coreDecls int             // number of declarations of the fixed initial block (always emitted)
	byKey   map[string]string // canonical type string -> sort name
	names   map[string]bool
	structs map[string]*structInfo // sort name -> info
	slices  map[string]types.Type  // slice sort name -> elem type
	boxes   map[string]types.Type  // box function suffix -> type
	tags    map[string]int
	strLits map[string]string // literal -> const name
	litList []string
	funcs   map[string]bool // declared uninterpreted functions
	inProgress map[string]bool // struct sorts whose declaration is being built
	handle     map[string]bool // slice sorts represented by a handle into a slice heap (recursive element types)
}

type structInfo struct {
	sort   string
	ctor   string
	fields []string // accessor names
	st     *types.Struct
}

func newSorts() *Sorts {
	s := &Sorts{
		byKey: map[string]string{}, names: map[string]bool{}, structs: map[string]*structInfo{},
		slices: map[string]types.Type{}, boxes: map[string]types.Type{}, tags: map[string]int{},
		strLits: map[string]string{}, funcs: map[string]bool{}, inProgress: map[string]bool{}, handle: map[string]bool{},
	}
	s.decls = append(s.decls,
		"(declare-sort Str 0)",
		"(declare-sort Iface 0)",
		"(declare-fun typetag (Iface) Int)",
		"(declare-const iface_nil Iface)",
		"(assert (= (typetag iface_nil) 0))",
		"(declare-fun strlen (Str) Int)",
		"(assert (forall ((s Str)) (! (>= (strlen s) 0) :pattern ((strlen s)))))",
		"(declare-fun sconcat (Str Str) Str)",
		"(assert (forall ((a Str) (b Str)) (! (= (strlen (sconcat a b)) (+ (strlen a) (strlen b))) :pattern ((sconcat a b)))))",
		"(declare-fun strlt (Str Str) Bool)",
		"(declare-fun substr (Str Int Int) Str)",
		"(declare-fun strat (Str Int) Int)",
	)
	s.coreDecls = len(s.decls)
	return s
}

func qualifier(p *types.Package) string { return p.Name() }

func typeKey(t types.Type) string { return types.TypeString(t, nil) }

func sanitize(s string) string {
	var b strings.Builder
	for _, r := range s {
		switch {
		case r >= 'a' && r <= 'z', r >= 'A' && r <= 'Z', r >= '0' && r <= '9':
			b.WriteRune(r)
		case r == '*':
			b.WriteString("P")
		case r == '[':
			b.WriteString("L")
		case r == ']':
			b.WriteString("J")
		default:
			b.WriteRune('_')
		}
	}
	return b.String()
}

func (s *Sorts) fresh(base string) string {
	n := base
	for i := 2; s.names[n]; i++ {
		n = fmt.Sprintf("%s_%d", base, i)
	}
	s.names[n] = true
	return n
}

func shortName(t types.Type) string {
	return sanitize(types.TypeString(t, qualifier))
}

// sortOf returns the SMT sort for a Go type.
func (s *Sorts) sortOf(t types.Type) string {
	switch u := t.(type) {
	case *types.Named:
		if _, ok := u.Underlying().(*types.Struct); ok {
			return s.structSort(u, u.Underlying().(*types.Struct))
		}
		return s.sortOf(u.Underlying())
	case *types.Alias:
		return s.sortOf(types.Unalias(u))
	case *types.Basic:
		switch {
		case u.Info()&types.IsBoolean != 0:
			return "Bool"
		case u.Info()&types.IsInteger != 0:
			return "Int"
		case u.Info()&types.IsString != 0:
			return "Str"
		case u.Info()&types.IsFloat != 0:
			return "Real"
		case u.Kind() == types.UnsafePointer:
			return "Int"
		case u.Kind() == types.UntypedNil:
			return "Int"
		}
		return "Int"
	case *types.Pointer, *types.Map, *types.Signature, *types.Chan:
		return "Int"
	case *types.Interface:
		return "Iface"
	case *types.Slice:
		return s.sliceSort(u.Elem())
	case *types.Array:
		return "(Array Int " + s.sortOf(u.Elem()) + ")"
	case *types.Struct:
		return s.structSort(t, u)
	case *types.Tuple:
		panic("tuple has no sort")
	case *types.TypeParam:
		return "Iface"
	case *SetT:
		return "(Array " + s.sortOf(u.Elem) + " Bool)"
	}
	panic(fmt.Sprintf("sortOf: unsupported type %T %v", t, t))
}

func (s *Sorts) sliceSort(elem types.Type) string {
	es := s.sortOf(elem)
	key := "slice|" + es
	if n, ok := s.byKey[key]; ok {
		return n
	}
	n := s.fresh("Slice_" + sanitize(es))
	s.byKey[key] = n
	s.slices[n] = elem
	if s.inProgress[es] {
		// []T inside T: the backing array lives in a slice heap, the slice value holds a handle
		s.handle[n] = true
		s.decls = append(s.decls, fmt.Sprintf("(declare-datatypes ((%s 0)) (((mk_%s (arr_%s Int) (len_%s Int) (nil_%s Bool)))))", n, n, n, n, n))
		return n
	}
	s.decls = append(s.decls, fmt.Sprintf(
		"(declare-datatypes ((%s 0)) (((mk_%s (arr_%s (Array Int %s)) (len_%s Int) (nil_%s Bool)))))", n, n, n, es, n, n))
	// well-formedness of slice values read from memory is assumed where they are loaded (see assumeWF)
	return n
}

func (s *Sorts) structSort(t types.Type, st *types.Struct) string {
	key := "struct|" + typeKey(t)
	if n, ok := s.byKey[key]; ok {
		return n
	}
	base := "V_" + shortName(t)
	if len(base) > 60 {
		base = base[:60]
	}
	n := s.fresh(base)
	s.byKey[key] = n
	info := &structInfo{sort: n, ctor: "mk_" + n, st: st}
	s.inProgress[n] = true
	defer delete(s.inProgress, n)
	// declare field sorts first (dependency order; Go forbids by-value recursion)
	fs := make([]string, st.NumFields())
	for i := 0; i < st.NumFields(); i++ {
		fs[i] = s.sortOf(st.Field(i).Type())
	}
	var b strings.Builder
	fmt.Fprintf(&b, "(declare-datatypes ((%s 0)) (((%s", n, info.ctor)
	for i := 0; i < st.NumFields(); i++ {
		acc := fmt.Sprintf("%s!%s", n, sanitize(st.Field(i).Name()))
		if st.Field(i).Name() == "_" {
			acc = fmt.Sprintf("%s!blank%d", n, i)
		}
		info.fields = append(info.fields, acc)
		fmt.Fprintf(&b, " (%s %s)", acc, fs[i])
	}
	b.WriteString("))))")
	s.decls = append(s.decls, b.String())
	s.structs[n] = info
	return n
}

func (s *Sorts) structInfoOf(t types.Type) *structInfo {
	n := s.sortOf(t)
	return s.structs[n]
}

// zero returns the zero value term of a type.
func (s *Sorts) zero(t types.Type) string {
	switch u := t.Underlying().(type) {
	case *types.Basic:
		switch {
		case u.Info()&types.IsBoolean != 0:
			return "false"
		case u.Info()&types.IsInteger != 0:
			return "0"
		case u.Info()&types.IsString != 0:
			return s.strLit("")
		case u.Info()&types.IsFloat != 0:
			return "0.0"
		}
		return "0"
	case *types.Pointer, *types.Map, *types.Signature, *types.Chan:
		return "0"
	case *types.Interface:
		return "iface_nil"
	case *types.Slice:
		n := s.sliceSort(u.Elem())
		if s.handle[n] {
			return fmt.Sprintf("(mk_%s 0 0 true)", n)
		}
		return fmt.Sprintf("(mk_%s %s 0 true)", n, s.constArr(u.Elem()))
	case *types.Array:
		return s.constArr(u.Elem())
	case *types.Struct:
		info := s.structInfoOf(t)
		if u.NumFields() == 0 {
			return info.ctor
		}
		if n, ok := s.byKey["zero|"+info.sort]; ok {
			return n
		}
		zn := "zv_" + info.sort
		s.byKey["zero|"+info.sort] = zn
		defer func() {
			// the body is built below; register the named constant afterwards
		}()
		var b strings.Builder
		b.WriteString("(" + info.ctor)
		for i := 0; i < u.NumFields(); i++ {
			b.WriteString(" " + s.zero(u.Field(i).Type()))
		}
		b.WriteString(")")
		s.decls = append(s.decls, fmt.Sprintf("(define-fun %s () %s %s)", zn, info.sort, b.String()))
		return zn
	}
	panic(fmt.Sprintf("zero: unsupported %v", t))
}

func (s *Sorts) constArr(elem types.Type) string {
	es := s.sortOf(elem)
	z := s.zero(elem)
	if !strings.Contains(z, "str!") && !strings.Contains(z, "iface_nil") && !strings.Contains(z, "zarr_") && !strings.Contains(z, "zv_") {
		return fmt.Sprintf("((as const (Array Int %s)) %s)", es, z)
	}
	// cvc5 accepts only values in constant arrays: use a declared array constrained pointwise
	key := "zarr|" + es
	if n, ok := s.byKey[key]; ok {
		return n
	}
	n := s.fresh("zarr_" + sanitize(es))
	s.byKey[key] = n
	s.decls = append(s.decls, fmt.Sprintf("(declare-const %s (Array Int %s))", n, es),
		fmt.Sprintf("(assert (forall ((i Int)) (! (= (select %s i) %s) :pattern ((select %s i)))))", n, z, n))
	return n
}

// strLit returns the constant for a string literal; all literals are pairwise distinct.
func (s *Sorts) strLit(v string) string {
	if n, ok := s.strLits[v]; ok {
		return n
	}
	n := fmt.Sprintf("str!%d", len(s.litList))
	s.strLits[v] = n
	s.litList = append(s.litList, v)
	s.decls = append(s.decls, fmt.Sprintf("(declare-const %s Str) ; %q", n, v), fmt.Sprintf("(assert (= (strlen %s) %d))", n, len(v)))
	return n
}

func (s *Sorts) distinctLits(needed map[string]bool) string {
	var names []string
	for i := range s.litList {
		n := fmt.Sprintf("str!%d", i)
		if needed == nil || needed[n] {
			names = append(names, n)
		}
	}
	if len(names) < 2 {
		return ""
	}
	return "(assert (distinct " + strings.Join(names, " ") + "))"
}

// box/unbox for interface values.
func (s *Sorts) boxName(t types.Type) string {
	srt := s.sortOf(t)
	key := "box|" + typeKey(t)
	if n, ok := s.byKey[key]; ok {
		return n
	}
	suffix := s.fresh("bx_" + shortName(t))
	s.byKey[key] = suffix
	s.boxes[suffix] = t
	tag := len(s.tags) + 1
	s.tags[suffix] = tag
	s.decls = append(s.decls,
		fmt.Sprintf("(declare-fun box_%s (%s) Iface)", suffix, srt),
		fmt.Sprintf("(declare-fun unbox_%s (Iface) %s)", suffix, srt),
		fmt.Sprintf("(assert (forall ((v %s)) (! (and (= (unbox_%s (box_%s v)) v) (= (typetag (box_%s v)) %d)) :pattern ((box_%s v)))))", srt, suffix, suffix, suffix, tag, suffix),
		fmt.Sprintf("(assert (forall ((i Iface)) (! (=> (= (typetag i) %d) (= (box_%s (unbox_%s i)) i)) :pattern ((unbox_%s i)))))", tag, suffix, suffix, suffix),
	)
	return suffix
}

func (s *Sorts) box(t types.Type, v string) string {
	if types.IsInterface(t) {
		return v
	}
	return fmt.Sprintf("(box_%s %s)", s.boxName(t), v)
}
func (s *Sorts) unbox(t types.Type, v string) string {
	if types.IsInterface(t) {
		return v
	}
	return fmt.Sprintf("(unbox_%s %s)", s.boxName(t), v)
}
func (s *Sorts) tagOf(t types.Type) int {
	n := s.boxName(t)
	return s.tags[n]
}

// declareFun declares an uninterpreted function once.
func (s *Sorts) declareFun(name string, args []string, res string) {
	if s.funcs[name] {
		return
	}
	s.funcs[name] = true
	s.decls = append(s.decls, fmt.Sprintf("(declare-fun %s (%s) %s)", name, strings.Join(args, " "), res))
}

// heap names
func (s *Sorts) heapKeyPtr(elem types.Type) (key, sort string) {
	es := s.sortOf(elem)
	if es == "Int" || es == "Iface" || strings.HasPrefix(es, "(Array") {
		// pointers to pointers/maps/arrays: separate heaps per Go type
		return "H_" + shortName(elem), "(Array Int " + es + ")"
	}
	return "H_" + sanitize(es), "(Array Int " + es + ")"
}

// mapTypeName distinguishes map heaps by the Go types of key and element (pointers of different types
// have the same sort but can never alias).
func (s *Sorts) mapTypeName(m *types.Map) string {
	n := func(t types.Type) string {
		srt := s.sortOf(t)
		if srt == "Int" || srt == "Iface" {
			if _, isBasic := t.Underlying().(*types.Basic); !isBasic {
				return shortName(t.Underlying())
			}
		}
		return sanitize(srt)
	}
	return n(m.Key()) + "__" + n(m.Elem())
}

func (s *Sorts) heapKeyMap(m *types.Map) (dkey, dsort, vkey, vsort string) {
	ks, vs := s.sortOf(m.Key()), s.sortOf(m.Elem())
	base := s.mapTypeName(m)
	return "MD_" + base, "(Array Int (Array " + ks + " Bool))", "MV_" + base, "(Array Int (Array " + ks + " " + vs + "))"
}

func sortedKeys[V any](m map[string]V) []string {
	ks := make([]string, 0, len(m))
	for k := range m {
		ks = append(ks, k)
	}
	sort.Strings(ks)
	return ks
}

func (s *Sorts) sliceHeap(sn string) (key, sort string) {
	return "SLH_" + sn, "(Array Int (Array Int " + s.sortOf(s.slices[sn]) + "))"
}
