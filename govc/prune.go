package main

import (
	"strings"
)

// Query preludes are pruned to the declarations a query uses, so that the text of a query depends on its own unit only
// (not on which other units of the plan introduced string literals, sorts or helper functions before it).

type declInfo struct {
	defs   []string // symbols this line declares (empty for assert lines)
	toks   []string // all symbol tokens of the line
	assert bool
}

var smtBuiltins = map[string]bool{
	"Int": true, "Bool": true, "Array": true, "declare-datatypes": true, "declare-const": true, "declare-fun": true,
	"define-fun": true, "declare-sort": true, "assert": true, "forall": true, "exists": true, "let": true, "ite": true,
	"and": true, "or": true, "not": true, "=>": true, "=": true, "<": true, "<=": true, ">": true, ">=": true, "+": true,
	"-": true, "*": true, "div": true, "mod": true, "select": true, "store": true, "as": true, "const": true,
	"distinct": true, "true": true, "false": true, "par": true, "!": true, ":pattern": true, ":no-pattern": true,
}

// smtTokens returns the symbol tokens of a piece of SMT-LIB text (comments skipped, numerals and builtins dropped).
func smtTokens(s string, out map[string]bool) {
	i, n := 0, len(s)
	for i < n {
		c := s[i]
		switch {
		case c == ';':
			for i < n && s[i] != '\n' {
				i++
			}
		case c == '"':
			i++
			for i < n && s[i] != '"' {
				i++
			}
			i++
		case c == '(' || c == ')' || c == ' ' || c == '\n' || c == '\t' || c == '\r':
			i++
		default:
			j := i
			for j < n {
				d := s[j]
				if d == '(' || d == ')' || d == ' ' || d == '\n' || d == '\t' || d == '\r' || d == ';' {
					break
				}
				j++
			}
			tok := s[i:j]
			if !(tok[0] >= '0' && tok[0] <= '9') && !smtBuiltins[tok] {
				out[tok] = true
			}
			i = j
		}
	}
}

func (s *Sorts) declInfos() []declInfo {
	if len(s.declCache) == len(s.decls) {
		return s.declCache
	}
	declared := map[string]bool{}
	infos := make([]declInfo, len(s.decls))
	for i, d := range s.decls {
		tm := map[string]bool{}
		smtTokens(d, tm)
		var toks []string
		for t := range tm {
			toks = append(toks, t)
		}
		di := declInfo{toks: toks}
		if strings.HasPrefix(d, "(assert") {
			di.assert = true
		} else {
			for _, t := range toks {
				if !declared[t] {
					di.defs = append(di.defs, t)
				}
			}
			for _, t := range di.defs {
				declared[t] = true
			}
		}
		infos[i] = di
	}
	// assert lines: `defs` holds the symbols that make the line relevant: for the length fact of a string literal the
	// literal itself; otherwise every non-core symbol it mentions (core = declared by the fixed initial block)
	core := map[string]bool{}
	for i := 0; i < len(infos) && i < s.coreDecls; i++ {
		for _, t := range infos[i].defs {
			core[t] = true
		}
	}
	for i := range infos {
		if !infos[i].assert {
			continue
		}
		var rel []string
		lit := ""
		for _, t := range infos[i].toks {
			if core[t] || !declared[t] {
				continue
			}
			rel = append(rel, t)
			if strings.HasPrefix(t, "str!") {
				lit = t
			}
		}
		if lit != "" && strings.HasPrefix(s.decls[i], "(assert (= (strlen str!") {
			rel = []string{lit}
		}
		infos[i].defs = rel
	}
	s.declCache = infos
	return infos
}

// prunedDecls returns the declarations (in order) needed by a query whose own text uses the symbols in `needed`
// (which is extended with everything the kept declarations use), and the string literals among them.
func (s *Sorts) prunedDecls(needed map[string]bool) []string {
	infos := s.declInfos()
	keep := make([]bool, len(infos))
	for changed := true; changed; {
		changed = false
		for i := len(infos) - 1; i >= 0; i-- {
			if keep[i] {
				continue
			}
			di := infos[i]
			hit := i < s.coreDecls
			for _, t := range di.defs {
				if needed[t] {
					hit = true
					break
				}
			}
			if di.assert && len(di.defs) == 0 {
				hit = true // an assertion about core symbols only: keep
			}
			if hit {
				keep[i] = true
				changed = true
				for _, t := range di.toks {
					needed[t] = true
				}
			}
		}
	}
	var out []string
	for i, k := range keep {
		if k {
			out = append(out, s.decls[i])
		}
	}
	return out
}
