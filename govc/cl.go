package main

// Contract language: lexer, parser, AST. (DESIGN §3)

import (
	"fmt"
	"strconv"
	"strings"
	"unicode"
)

type Expr interface{ String() string }

type (
	EIdent  struct{ Name string }
	EInt    struct{ V int64 }
	EStr    struct{ V string }
	EBool   struct{ V bool }
	ENil    struct{}
	EUnary  struct {
		Op string
		X  Expr
	}
	EBinary struct {
		Op   string
		X, Y Expr
	}
	EField struct {
		X    Expr
		Name string
	}
	EIndex struct{ X, I Expr }
	ECall  struct {
		Fun  string
		Recv Expr // method-style call x.f(args) (Recv != nil)
		Args []Expr
	}
	EOld   struct{ X Expr }
	EQuant struct {
		Forall bool
		Var    string
		// exactly one of: Type (unbounded typed), Dom (k in dom(m)), Set (k in <set expr>), Lo/Hi (int range)
		Type   *TypeExpr
		Dom    Expr
		Set    Expr
		Lo, Hi Expr
		Body   Expr
		Triggers []Expr // optional explicit triggers: forall x T {t1, t2} :: body (alternatives)
	}
	EIn struct { // k in dom(m)  |  k in setexpr
		K   Expr
		Dom Expr // map expression when IsDom
		Set Expr
	}
	EWith struct {
		X      Expr
		Fields []string
		Vals   []Expr
	}
	EIte  struct{ C, A, B Expr }
	EAddr struct{ Name string } // &local
	ETypeIs struct { // e is T   (dynamic type test on interface)
		X Expr
		T *TypeExpr
	}
	ECast struct { // e.(T) unbox
		X Expr
		T *TypeExpr
	}
)

type TypeExpr struct {
	Kind string // "name", "ptr", "slice", "map"
	Pkg  string
	Name string
	Elem *TypeExpr
	Key  *TypeExpr
}

func (t *TypeExpr) String() string {
	switch t.Kind {
	case "ptr":
		return "*" + t.Elem.String()
	case "slice":
		return "[]" + t.Elem.String()
	case "map":
		return "map[" + t.Key.String() + "]" + t.Elem.String()
	case "emptystruct":
		return "struct{}"
	}
	if t.Pkg != "" {
		return t.Pkg + "." + t.Name
	}
	return t.Name
}

func (e *EIdent) String() string  { return e.Name }
func (e *EInt) String() string    { return strconv.FormatInt(e.V, 10) }
func (e *EStr) String() string    { return strconv.Quote(e.V) }
func (e *EBool) String() string   { return strconv.FormatBool(e.V) }
func (e *ENil) String() string    { return "nil" }
func (e *EUnary) String() string  { return e.Op + e.X.String() }
func (e *EBinary) String() string { return "(" + e.X.String() + " " + e.Op + " " + e.Y.String() + ")" }
func (e *EField) String() string  { return e.X.String() + "." + e.Name }
func (e *EIndex) String() string  { return e.X.String() + "[" + e.I.String() + "]" }
func (e *ECall) String() string {
	var as []string
	for _, a := range e.Args {
		as = append(as, a.String())
	}
	p := e.Fun
	if e.Recv != nil {
		p = e.Recv.String() + "." + e.Fun
	}
	return p + "(" + strings.Join(as, ", ") + ")"
}
func (e *EOld) String() string { return "old(" + e.X.String() + ")" }
func (e *EQuant) String() string {
	q := "exists"
	if e.Forall {
		q = "forall"
	}
	switch {
	case e.Type != nil:
		return fmt.Sprintf("(%s %s %s :: %s)", q, e.Var, e.Type, e.Body)
	case e.Dom != nil:
		return fmt.Sprintf("(%s %s in dom(%s) :: %s)", q, e.Var, e.Dom, e.Body)
	case e.Set != nil:
		return fmt.Sprintf("(%s %s in %s :: %s)", q, e.Var, e.Set, e.Body)
	}
	return fmt.Sprintf("(%s %s in %s..%s :: %s)", q, e.Var, e.Lo, e.Hi, e.Body)
}
func (e *EIn) String() string {
	if e.Dom != nil {
		return e.K.String() + " in dom(" + e.Dom.String() + ")"
	}
	return e.K.String() + " in " + e.Set.String()
}
func (e *EWith) String() string {
	var fs []string
	for i := range e.Fields {
		fs = append(fs, e.Fields[i]+": "+e.Vals[i].String())
	}
	return e.X.String() + " with {" + strings.Join(fs, ", ") + "}"
}
func (e *EIte) String() string    { return "(if " + e.C.String() + " then " + e.A.String() + " else " + e.B.String() + ")" }
func (e *EAddr) String() string   { return "&" + e.Name }
func (e *ETypeIs) String() string { return e.X.String() + " is " + e.T.String() }
func (e *ECast) String() string   { return e.X.String() + ".(" + e.T.String() + ")" }

// ---------------------------------------------------------------- lexer

type tok struct {
	kind string // ident, int, str, op, eof
	text string
}

func lex(src string) ([]tok, error) {
	var ts []tok
	i := 0
	for i < len(src) {
		c := src[i]
		switch {
		case c == ' ' || c == '\t' || c == '\n':
			i++
		case unicode.IsLetter(rune(c)) || c == '_':
			j := i
			for j < len(src) && (unicode.IsLetter(rune(src[j])) || unicode.IsDigit(rune(src[j])) || src[j] == '_' || src[j] == '#') {
				j++
			}
			ts = append(ts, tok{"ident", src[i:j]})
			i = j
		case unicode.IsDigit(rune(c)):
			j := i
			for j < len(src) && unicode.IsDigit(rune(src[j])) {
				j++
			}
			ts = append(ts, tok{"int", src[i:j]})
			i = j
		case c == '"':
			j := i + 1
			for j < len(src) && src[j] != '"' {
				if src[j] == '\\' {
					j++
				}
				j++
			}
			if j >= len(src) {
				return nil, fmt.Errorf("unterminated string in %q", src)
			}
			s, err := strconv.Unquote(src[i : j+1])
			if err != nil {
				return nil, fmt.Errorf("bad string %s: %v", src[i:j+1], err)
			}
			ts = append(ts, tok{"str", s})
			i = j + 1
		default:
			ops := []string{"<==>", "==>", "::", "..", "==", "!=", "<=", ">=", "&&", "||", "+", "-", "*", "<", ">", "!", "(", ")", "[", "]", "{", "}", ",", ".", ":", "&"}
			found := false
			for _, op := range ops {
				if strings.HasPrefix(src[i:], op) {
					ts = append(ts, tok{"op", op})
					i += len(op)
					found = true
					break
				}
			}
			if !found {
				return nil, fmt.Errorf("unexpected character %q in %q", c, src)
			}
		}
	}
	ts = append(ts, tok{"eof", ""})
	return ts, nil
}

// ---------------------------------------------------------------- parser

type parser struct {
	ts  []tok
	pos int
	src string
}

func parseExpr(src string) (e Expr, err error) {
	ts, err := lex(src)
	if err != nil {
		return nil, err
	}
	p := &parser{ts: ts, src: src}
	defer func() {
		if r := recover(); r != nil {
			if pe, ok := r.(parseErr); ok {
				err = fmt.Errorf("%s (in %q)", string(pe), src)
				return
			}
			panic(r)
		}
	}()
	e = p.expr()
	if p.peek().kind != "eof" {
		p.fail("trailing input at %q", p.peek().text)
	}
	return e, nil
}

type parseErr string

func (p *parser) fail(f string, a ...interface{}) { panic(parseErr(fmt.Sprintf(f, a...))) }
func (p *parser) peek() tok                        { return p.ts[p.pos] }
func (p *parser) next() tok                        { t := p.ts[p.pos]; p.pos++; return t }
func (p *parser) isOp(s string) bool               { t := p.peek(); return t.kind == "op" && t.text == s }
func (p *parser) isKw(s string) bool               { t := p.peek(); return t.kind == "ident" && t.text == s }
func (p *parser) expectOp(s string) {
	if !p.isOp(s) {
		p.fail("expected %q, got %q", s, p.peek().text)
	}
	p.pos++
}
func (p *parser) expectKw(s string) {
	if !p.isKw(s) {
		p.fail("expected %q, got %q", s, p.peek().text)
	}
	p.pos++
}

func (p *parser) expr() Expr {
	if p.isKw("forall") || p.isKw("exists") {
		return p.quant()
	}
	if p.isKw("if") {
		p.next()
		c := p.expr()
		p.expectKw("then")
		a := p.expr()
		p.expectKw("else")
		b := p.expr()
		return &EIte{c, a, b}
	}
	return p.iff()
}

func (p *parser) quant() Expr {
	q := &EQuant{Forall: p.next().text == "forall"}
	v := p.next()
	if v.kind != "ident" {
		p.fail("quantifier variable expected")
	}
	q.Var = v.text
	if p.isKw("in") {
		p.next()
		if p.isKw("dom") {
			p.next()
			p.expectOp("(")
			q.Dom = p.expr()
			p.expectOp(")")
		} else {
			lo := p.additive()
			if p.isOp("..") {
				p.next()
				q.Lo = lo
				q.Hi = p.additive()
			} else {
				q.Set = lo
			}
		}
	} else {
		q.Type = p.typeExpr()
	}
	if p.isOp("{") {
		p.next()
		for !p.isOp("}") {
			q.Triggers = append(q.Triggers, p.expr())
			if p.isOp(",") {
				p.next()
			}
		}
		p.next()
	}
	p.expectOp("::")
	q.Body = p.expr()
	return q
}

func (p *parser) typeExpr() *TypeExpr {
	switch {
	case p.isOp("*"):
		p.next()
		return &TypeExpr{Kind: "ptr", Elem: p.typeExpr()}
	case p.isOp("["):
		p.next()
		p.expectOp("]")
		return &TypeExpr{Kind: "slice", Elem: p.typeExpr()}
	case p.isKw("map"):
		p.next()
		p.expectOp("[")
		k := p.typeExpr()
		p.expectOp("]")
		return &TypeExpr{Kind: "map", Key: k, Elem: p.typeExpr()}
	}
	t := p.next()
	if t.kind != "ident" {
		p.fail("type expected, got %q", t.text)
	}
	if t.text == "struct" && p.isOp("{") {
		p.next()
		p.expectOp("}")
		return &TypeExpr{Kind: "emptystruct"}
	}
	if p.isOp(".") {
		p.next()
		n := p.next()
		return &TypeExpr{Kind: "name", Pkg: t.text, Name: n.text}
	}
	return &TypeExpr{Kind: "name", Name: t.text}
}

func (p *parser) iff() Expr {
	x := p.implies()
	for p.isOp("<==>") {
		p.next()
		y := p.implies()
		x = &EBinary{"<==>", x, y}
	}
	return x
}

func (p *parser) implies() Expr {
	x := p.or()
	if p.isOp("==>") {
		p.next()
		var y Expr
		if p.isKw("forall") || p.isKw("exists") || p.isKw("if") {
			y = p.expr()
		} else {
			y = p.implies() // right assoc
		}
		return &EBinary{"==>", x, y}
	}
	return x
}

func (p *parser) or() Expr {
	x := p.and()
	for p.isOp("||") {
		p.next()
		var y Expr
		if p.isKw("forall") || p.isKw("exists") {
			y = p.expr()
		} else {
			y = p.and()
		}
		x = &EBinary{"||", x, y}
	}
	return x
}

func (p *parser) and() Expr {
	x := p.cmp()
	for p.isOp("&&") {
		p.next()
		var y Expr
		if p.isKw("forall") || p.isKw("exists") {
			y = p.expr()
		} else {
			y = p.cmp()
		}
		x = &EBinary{"&&", x, y}
	}
	return x
}

func (p *parser) cmp() Expr {
	x := p.additive()
	for {
		switch {
		case p.isOp("==") || p.isOp("!=") || p.isOp("<") || p.isOp("<=") || p.isOp(">") || p.isOp(">="):
			op := p.next().text
			y := p.additive()
			x = &EBinary{op, x, y}
		case p.isKw("in"):
			p.next()
			if p.isKw("dom") {
				p.next()
				p.expectOp("(")
				m := p.expr()
				p.expectOp(")")
				x = &EIn{K: x, Dom: m}
			} else {
				x = &EIn{K: x, Set: p.additive()}
			}
		case p.isOp("!") && p.ts[p.pos+1].kind == "ident" && p.ts[p.pos+1].text == "in":
			p.next()
			p.next()
			if p.isKw("dom") {
				p.next()
				p.expectOp("(")
				m := p.expr()
				p.expectOp(")")
				x = &EUnary{"!", &EIn{K: x, Dom: m}}
			} else {
				x = &EUnary{"!", &EIn{K: x, Set: p.additive()}}
			}
		case p.isKw("is"):
			p.next()
			x = &ETypeIs{x, p.typeExpr()}
		default:
			return x
		}
	}
}

func (p *parser) additive() Expr {
	x := p.unary()
	for p.isOp("+") || p.isOp("-") {
		op := p.next().text
		y := p.unary()
		x = &EBinary{op, x, y}
	}
	return x
}

func (p *parser) unary() Expr {
	switch {
	case p.isOp("!"):
		p.next()
		return &EUnary{"!", p.unary()}
	case p.isOp("-"):
		p.next()
		return &EUnary{"-", p.unary()}
	case p.isOp("*"):
		p.next()
		return &EUnary{"*", p.unary()}
	case p.isOp("&"):
		p.next()
		n := p.next()
		if n.kind != "ident" {
			p.fail("&name expected")
		}
		return &EAddr{n.text}
	}
	return p.postfix()
}

func (p *parser) postfix() Expr {
	x := p.primary()
	for {
		switch {
		case p.isOp("."):
			p.next()
			if p.isOp("(") { // type assertion e.(T)
				p.next()
				t := p.typeExpr()
				p.expectOp(")")
				x = &ECast{x, t}
				continue
			}
			n := p.next()
			if n.kind != "ident" && n.kind != "int" {
				p.fail("field name expected after '.'")
			}
			if p.isOp("(") {
				p.next()
				args := p.args()
				x = &ECall{Fun: n.text, Recv: x, Args: args}
			} else {
				x = &EField{x, n.text}
			}
		case p.isOp("["):
			p.next()
			i := p.expr()
			p.expectOp("]")
			x = &EIndex{x, i}
		case p.isKw("with"):
			p.next()
			p.expectOp("{")
			w := &EWith{X: x}
			for !p.isOp("}") {
				f := p.next()
				p.expectOp(":")
				w.Fields = append(w.Fields, f.text)
				w.Vals = append(w.Vals, p.expr())
				if p.isOp(",") {
					p.next()
				}
			}
			p.next()
			x = w
		default:
			return x
		}
	}
}

func (p *parser) args() []Expr {
	var as []Expr
	for !p.isOp(")") {
		as = append(as, p.expr())
		if p.isOp(",") {
			p.next()
		}
	}
	p.next()
	return as
}

func (p *parser) primary() Expr {
	t := p.next()
	switch t.kind {
	case "int":
		v, _ := strconv.ParseInt(t.text, 10, 64)
		return &EInt{v}
	case "str":
		return &EStr{t.text}
	case "op":
		if t.text == "(" {
			e := p.expr()
			p.expectOp(")")
			return e
		}
	case "ident":
		switch t.text {
		case "true":
			return &EBool{true}
		case "false":
			return &EBool{false}
		case "nil":
			return &ENil{}
		case "old":
			p.expectOp("(")
			e := p.expr()
			p.expectOp(")")
			return &EOld{e}
		}
		if p.isOp("(") {
			p.next()
			return &ECall{Fun: t.text, Args: p.args()}
		}
		return &EIdent{t.text}
	}
	p.fail("unexpected token %q", t.text)
	return nil
}
