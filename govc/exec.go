package main

// Symbolic executor over go/ssa (naive form): blocks in topological order with state merging,
// loops cut at their header with invariants, calls by contract or inlined.

import (
	"fmt"
	"go/ast"
	"go/constant"
	"go/token"
	"go/types"
	"sort"
	"strings"

	"golang.org/x/tools/go/ssa"
)

type unsupported string

func unsup(f string, a ...interface{}) { panic(unsupported(fmt.Sprintf(f, a...))) }

type scope struct {
	name     string
	freshFrom string // refs >= this are fresh for the scope
	targets  []modTarget
	wholeHeaps map[string]bool
	kind     string // "func" or "loop"
	srcs     []string
}

type modTarget struct {
	heapKey string // pointer heap key, or map dom key for maps
	isMap   bool
	ref     string
	path    []int // field path within the object (nil = whole object)
	mtype   *types.Map
	elem    types.Type
	src     string
	def     string // condition under which the target designates memory (all dereferenced pointers non-nil)
}

type Exec struct {
	vc       *VC
	eng      *Engine
	top      *ssa.Function
	contract *FuncContract
	aspect   string
	entry    *State
	topScope *scope
	stack    []*ssa.Function
	paramVals map[string]TVal
	nilChecked map[string]bool
	closures map[string]*Closure // function-value ids (negative integers) of closures created in this unit
	safety   bool // generate no-panic obligations
	frames   bool
	calleeNote map[string]bool
}

type loopInfo struct {
	header  *ssa.BasicBlock
	body    map[*ssa.BasicBlock]bool
	back    []*ssa.BasicBlock // sources of back edges
	ordinal int
	spec    *LoopSpec
	rng     *ssa.Range
	next    *ssa.Next
	idxCell *ssa.Alloc
	scope   *scope
	entrySt *State
	seenName string
	pos     token.Pos
	pending []*State
}

type Frame struct {
	ex      *Exec
	fn      *ssa.Function
	env     map[ssa.Value]Val
	isTop   bool
	loops   map[*ssa.BasicBlock]*loopInfo
	inLoops map[*ssa.BasicBlock][]*loopInfo
	edge    map[[2]int]*State
	rets    []retRec
	depth   int
	free    map[*ssa.FreeVar]Val
	phantom map[*ssa.Alloc]bool
	rangeSt map[*ssa.Range]*rangeState
	tag     string
	parentScopes []*scope
	curBlock *ssa.BasicBlock
}

type rangeState struct {
	m       Val
	mt      *types.Map
	entryDom string
	seen    string // ghost name in state.ghosts
}

type retRec struct {
	st   *State
	vals []Val
}

func (ex *Exec) newFrame(fn *ssa.Function, depth int) *Frame {
	fr := &Frame{ex: ex, fn: fn, env: map[ssa.Value]Val{}, depth: depth, edge: map[[2]int]*State{}, free: map[*ssa.FreeVar]Val{},
		phantom: map[*ssa.Alloc]bool{}, rangeSt: map[*ssa.Range]*rangeState{}}
	fr.findLoops()
	return fr
}

// ---------------------------------------------------------------- loops

func (fr *Frame) findLoops() {
	fr.loops = map[*ssa.BasicBlock]*loopInfo{}
	fr.inLoops = map[*ssa.BasicBlock][]*loopInfo{}
	fn := fr.fn
	for _, b := range fn.Blocks {
		for _, s := range b.Succs {
			if s.Dominates(b) { // back edge b -> s
				li := fr.loops[s]
				if li == nil {
					li = &loopInfo{header: s, body: map[*ssa.BasicBlock]bool{s: true}}
					fr.loops[s] = li
				}
				li.back = append(li.back, b)
				// natural loop body
				stack := []*ssa.BasicBlock{b}
				for len(stack) > 0 {
					x := stack[len(stack)-1]
					stack = stack[:len(stack)-1]
					if li.body[x] {
						continue
					}
					li.body[x] = true
					stack = append(stack, x.Preds...)
				}
			}
		}
	}
	var headers []*ssa.BasicBlock
	for h := range fr.loops {
		headers = append(headers, h)
	}
	sort.Slice(headers, func(i, j int) bool { return headers[i].Index < headers[j].Index })
	// source loops
	var srcLoops []ast.Node
	if syn := fn.Syntax(); syn != nil {
		var body *ast.BlockStmt
		switch s := syn.(type) {
		case *ast.FuncDecl:
			body = s.Body
		case *ast.FuncLit:
			body = s.Body
		}
		if body != nil {
			ast.Inspect(body, func(n ast.Node) bool {
				switch n.(type) {
				case *ast.FuncLit:
					return false
				case *ast.ForStmt, *ast.RangeStmt:
					srcLoops = append(srcLoops, n)
				}
				return true
			})
		}
	}
	if len(srcLoops) != len(headers) {
		// cannot map ordinals reliably (e.g. goto loops); loops keep block order
		fr.ex.vc.note("%s: %d source loops vs %d CFG loops; ordinals by block order", fn.Name(), len(srcLoops), len(headers))
	}
	for i, h := range headers {
		li := fr.loops[h]
		li.ordinal = i + 1
		if i < len(srcLoops) && len(srcLoops) == len(headers) {
			li.pos = srcLoops[i].Pos()
		}
		if len(h.Instrs) > 0 {
			if nx, ok := h.Instrs[0].(*ssa.Next); ok {
				li.next = nx
				li.rng, _ = nx.Iter.(*ssa.Range)
			}
		}
		// rangeindex cell: header begins with load of a local named "rangeindex"
		if len(h.Instrs) > 0 {
			if ld, ok := h.Instrs[0].(*ssa.UnOp); ok && ld.Op == token.MUL {
				if a, ok := ld.X.(*ssa.Alloc); ok && a.Comment == "rangeindex" {
					li.idxCell = a
				}
			}
		}
		for b := range li.body {
			fr.inLoops[b] = append(fr.inLoops[b], li)
		}
	}
	for b := range fr.inLoops {
		ls := fr.inLoops[b]
		sort.Slice(ls, func(i, j int) bool { return ls[i].ordinal < ls[j].ordinal })
	}
}

func (fr *Frame) isBackEdge(from, to *ssa.BasicBlock) bool {
	li := fr.loops[to]
	if li == nil {
		return false
	}
	for _, b := range li.back {
		if b == from {
			return true
		}
	}
	return false
}

// topological order ignoring back edges
func (fr *Frame) order() []*ssa.BasicBlock {
	fn := fr.fn
	indeg := make([]int, len(fn.Blocks))
	for _, b := range fn.Blocks {
		for _, s := range b.Succs {
			if !fr.isBackEdge(b, s) {
				indeg[s.Index]++
			}
		}
	}
	var out []*ssa.BasicBlock
	var ready []*ssa.BasicBlock
	for _, b := range fn.Blocks {
		if indeg[b.Index] == 0 {
			ready = append(ready, b)
		}
	}
	for len(ready) > 0 {
		sort.Slice(ready, func(i, j int) bool { return ready[i].Index < ready[j].Index })
		b := ready[0]
		ready = ready[1:]
		out = append(out, b)
		for _, s := range b.Succs {
			if fr.isBackEdge(b, s) {
				continue
			}
			indeg[s.Index]--
			if indeg[s.Index] == 0 {
				ready = append(ready, s)
			}
		}
	}
	return out
}

// ---------------------------------------------------------------- state merging

func sameVal(a, b Val) bool {
	if a.t != b.t || a.closure != b.closure || a.fn != b.fn || len(a.tuple) != len(b.tuple) {
		return false
	}
	if (a.place == nil) != (b.place == nil) {
		return false
	}
	if a.place != nil {
		p, q := a.place, b.place
		if p.kind != q.kind || p.alloc != q.alloc || p.ref != q.ref || len(p.path) != len(q.path) || p.idx != q.idx || p.slice.t != q.slice.t {
			return false
		}
		for i := range p.path {
			if p.path[i] != q.path[i] {
				return false
			}
		}
	}
	for i := range a.tuple {
		if !sameVal(a.tuple[i], b.tuple[i]) {
			return false
		}
	}
	return true
}

func (ex *Exec) valTermOK(v Val) (string, bool) {
	if v.place != nil {
		if v.place.kind == pkHeap && len(v.place.path) == 0 {
			return v.place.ref, true
		}
		return "", false
	}
	if v.tuple != nil {
		return "", false
	}
	if (v.closure != nil || v.fn != nil) && v.t == "" {
		return "", false
	}
	return v.t, true
}

func (ex *Exec) mergeVals(pcs []string, vals []Val, sort string) Val {
	all := true
	for _, v := range vals[1:] {
		if !sameVal(vals[0], v) {
			all = false
			break
		}
	}
	if all {
		return vals[0]
	}
	terms := make([]string, len(vals))
	for i, v := range vals {
		t, ok := ex.valTermOK(v)
		if !ok {
			unsup("cannot merge non-term values at join")
		}
		terms[i] = t
	}
	t := terms[len(terms)-1]
	for i := len(terms) - 2; i >= 0; i-- {
		t = ite(pcs[i], terms[i], t)
	}
	out := vals[0]
	out.place = nil
	out.origin = nil
	out.resl = nil
	for _, v := range vals {
		if out.backing == nil {
			out.backing = v.backing // provenance is an over-approximation: any branch may alias
		}
	}
	out.closure, out.fn = nil, nil
	out.t = ex.vc.define("m", sort, t)
	if vals[0].place != nil {
		out.t = ""
		out.place = &Place{kind: pkHeap, ref: ex.vc.define("m", "Int", t), root: vals[0].place.root}
	}
	return out
}

func (ex *Exec) mergeStates(sts []*State) *State {
	if len(sts) == 1 {
		return sts[0]
	}
	vc := ex.vc
	pcs := make([]string, len(sts))
	for i, s := range sts {
		pcs[i] = s.pc
	}
	out := &State{cells: map[*ssa.Alloc]Val{}, heaps: map[string]string{}, ghosts: map[string]TVal{}}
	out.pc = vc.define("pc", "Bool", or(pcs...))
	// cells: only those present in all
	for _, a := range sortedAllocs(sts[0].cells) {
		v0 := sts[0].cells[a]
		vals := []Val{v0}
		ok := true
		for _, s := range sts[1:] {
			v, has := s.cells[a]
			if !has {
				ok = false
				break
			}
			vals = append(vals, v)
		}
		if !ok {
			continue
		}
		out.cells[a] = ex.mergeVals(pcs, vals, vc.eng.S.sortOf(a.Type().(*types.Pointer).Elem()))
	}
	keys := map[string]bool{}
	for _, s := range sts {
		for k := range s.heaps {
			keys[k] = true
		}
	}
	for _, k := range sortedKeys(keys) {
		ts := make([]string, len(sts))
		for i, s := range sts {
			ts[i] = vc.heap(s, k, vc.heapSorts[k])
		}
		t := ts[len(ts)-1]
		same := true
		for i := len(ts) - 2; i >= 0; i-- {
			if ts[i] != ts[len(ts)-1] {
				same = false
			}
			t = ite(pcs[i], ts[i], t)
		}
		if same {
			out.heaps[k] = ts[0]
		} else {
			out.heaps[k] = vc.define("h_"+k, vc.heapSorts[k], t)
		}
	}
	// next
	{
		t := sts[len(sts)-1].next
		for i := len(sts) - 2; i >= 0; i-- {
			t = ite(pcs[i], sts[i].next, t)
		}
		out.next = vc.define("next", "Int", t)
	}
	for _, g := range sortedKeys(sts[0].ghosts) {
		v0 := sts[0].ghosts[g]
		t := ""
		ok := true
		for i := len(sts) - 1; i >= 0; i-- {
			v, has := sts[i].ghosts[g]
			if !has {
				ok = false
				break
			}
			if t == "" {
				t = v.t
			} else {
				t = ite(pcs[i], v.t, t)
			}
		}
		if ok {
			out.ghosts[g] = TVal{vc.define("g", vc.eng.S.sortOf(v0.typ), t), v0.typ}
		}
	}
	return out
}

// ---------------------------------------------------------------- running a function body

func (fr *Frame) run(st *State) []retRec {
	fn := fr.fn
	if len(fn.Blocks) == 0 {
		unsup("function %s has no body", fn)
	}
	if fn.Recover != nil {
		unsup("function %s uses recover", fn)
	}
	order := fr.order()
	if len(order) != len(fn.Blocks) {
		// unreachable blocks are fine; irreducible flow is not
		reach := 0
		for _, b := range fn.Blocks {
			if b == fn.Blocks[0] || len(b.Preds) > 0 {
				reach++
			}
		}
		if len(order) < reach {
			unsup("irreducible control flow in %s", fn)
		}
	}
	for _, b := range order {
		var in []*State
		if b.Index == 0 {
			in = append(in, st)
		}
		for _, p := range b.Preds {
			if fr.isBackEdge(p, b) {
				continue
			}
			if s := fr.edge[[2]int{p.Index, b.Index}]; s != nil && !s.dead {
				in = append(in, s)
			}
		}
		if len(in) == 0 {
			continue
		}
		// phi operands need the edge pcs
		var phiPcs []string
		var phiPreds []*ssa.BasicBlock
		for _, p := range b.Preds {
			if fr.isBackEdge(p, b) {
				continue
			}
			if s := fr.edge[[2]int{p.Index, b.Index}]; s != nil && !s.dead {
				phiPcs = append(phiPcs, s.pc)
				phiPreds = append(phiPreds, p)
			}
		}
		cur := fr.ex.mergeStates(in)
		if len(in) == 1 {
			cur = in[0].clone()
		}
		fr.curBlock = b
		if li := fr.loops[b]; li != nil {
			cur = fr.enterLoop(li, cur)
		}
		fr.execBlock(b, cur, phiPcs, phiPreds)
	}
	for _, li := range fr.loops {
		if len(li.pending) > 0 {
			fr.backEdge(li, fr.ex.mergeStates(li.pending))
			li.pending = nil
		}
	}
	return fr.rets
}

func (fr *Frame) execBlock(b *ssa.BasicBlock, st *State, phiPcs []string, phiPreds []*ssa.BasicBlock) {
	for _, ins := range b.Instrs {
		if st.dead {
			return
		}
		switch ins := ins.(type) {
		case *ssa.Phi:
			if fr.loops[b] != nil {
				unsup("phi at loop header in %s", fr.fn)
			}
			var vals []Val
			for _, p := range phiPreds {
				for i, pp := range b.Preds {
					if pp == p {
						vals = append(vals, fr.val(ins.Edges[i]))
						break
					}
				}
			}
			fr.env[ins] = fr.ex.mergeVals(phiPcs, vals, fr.ex.eng.S.sortOf(ins.Type()))
		case *ssa.If:
			c := fr.term(ins.Cond)
			c = fr.ex.vc.define("c", "Bool", c)
			fr.flow(b, b.Succs[0], st, c)
			fr.flow(b, b.Succs[1], st, not(c))
			return
		case *ssa.Jump:
			fr.flow(b, b.Succs[0], st, "true")
			return
		case *ssa.Return:
			var vals []Val
			for _, r := range ins.Results {
				vals = append(vals, fr.val(r))
			}
			fr.rets = append(fr.rets, retRec{st, vals})
			return
		case *ssa.Panic:
			fr.doPanic(ins, st)
			return
		default:
			fr.exec(ins, st)
		}
	}
}

func (fr *Frame) flow(from, to *ssa.BasicBlock, st *State, cond string) {
	ns := st.clone()
	if cond != "true" {
		ns.pc = fr.ex.vc.define("pc", "Bool", and(st.pc, cond))
	}
	if fr.isBackEdge(from, to) {
		li := fr.loops[to]
		li.pending = append(li.pending, ns)
		if len(li.pending) == len(li.back) {
			fr.backEdge(li, fr.ex.mergeStates(li.pending))
			li.pending = nil
		}
		return
	}
	fr.edge[[2]int{from.Index, to.Index}] = ns
}

// ---------------------------------------------------------------- values

func (fr *Frame) val(v ssa.Value) Val {
	switch v := v.(type) {
	case *ssa.Const:
		return fr.constVal(v)
	case *ssa.Function:
		return Val{fn: v, typ: v.Type(), t: fr.ex.funcID(&Closure{fn: v})}
	case *ssa.Global:
		return Val{place: &Place{kind: pkHeap, ref: fr.ex.globalRef(v), root: v.Type().(*types.Pointer).Elem()}, typ: v.Type()}
	case *ssa.FreeVar:
		if x, ok := fr.free[v]; ok {
			return x
		}
		unsup("unbound free variable %s", v.Name())
	case *ssa.Builtin:
		unsup("builtin %s used as value", v.Name())
	}
	x, ok := fr.env[v]
	if !ok {
		unsup("value %s (%T) not evaluated in %s", v.Name(), v, fr.fn.Name())
	}
	return x
}

func (fr *Frame) term(v ssa.Value) string {
	x := fr.val(v)
	t, ok := fr.ex.valTermOK(x)
	if !ok {
		unsup("value %s is not a first-order term (interior pointer, closure or tuple) in %s", v.Name(), fr.fn.Name())
	}
	return t
}

func (ex *Exec) globalRef(g *ssa.Global) string {
	return ex.vc.globalRef(g.Pkg.Pkg.Path(), g.Pkg.Pkg.Name(), g.Name())
}

// globalRef: the address of a package-level variable (a fixed negative reference; A-GLOBALS: globals are
// read as arbitrary but stable values, no verified body writes them).
func (vc *VC) globalRef(pkgPath, pkgName, name string) string {
	h := 0
	for _, c := range pkgPath + "." + name {
		h = (h*31 + int(c)) % 1000003
	}
	vc.note("global %s.%s read as an arbitrary stable value (A-GLOBALS)", pkgName, name)
	return fmt.Sprintf("(- %d)", h+1)
}

func (fr *Frame) constVal(c *ssa.Const) Val {
	S := fr.ex.eng.S
	t := c.Type()
	if c.Value == nil {
		return Val{t: S.zero(t), typ: t}
	}
	switch u := t.Underlying().(type) {
	case *types.Basic:
		switch {
		case u.Info()&types.IsBoolean != 0:
			return Val{t: c.Value.String(), typ: t}
		case u.Info()&types.IsInteger != 0:
			n := c.Int64()
			if n < 0 {
				return Val{t: fmt.Sprintf("(- %d)", -n), typ: t}
			}
			return Val{t: fmt.Sprint(n), typ: t}
		case u.Info()&types.IsString != 0:
			return Val{t: S.strLit(constantString(c)), typ: t}
		case u.Info()&types.IsFloat != 0:
			return Val{t: fmt.Sprintf("%f", c.Float64()), typ: t}
		}
	}
	unsup("constant %s of type %v", c, t)
	return Val{}
}

func tv(v Val, ex *Exec) TVal {
	t, ok := ex.valTermOK(v)
	if !ok {
		unsup("non-term value where a term is needed")
	}
	return TVal{t, v.typ}
}

// ---------------------------------------------------------------- places

func (fr *Frame) placeOf(v ssa.Value) *Place {
	x := fr.val(v)
	if x.place != nil {
		return x.place
	}
	pt, ok := v.Type().Underlying().(*types.Pointer)
	if !ok {
		unsup("not a pointer: %s", v.Name())
	}
	return &Place{kind: pkHeap, ref: x.t, root: pt.Elem()}
}

func (ex *Exec) typeAt(p *Place) types.Type {
	var t types.Type
	switch p.kind {
	case pkCell:
		t = p.alloc.Type().(*types.Pointer).Elem()
	case pkHeap:
		t = p.root
	case pkSlice:
		t = p.slice.typ.Underlying().(*types.Slice).Elem()
	}
	for _, s := range p.path {
		if s.field >= 0 {
			t = t.Underlying().(*types.Struct).Field(s.field).Type()
		} else {
			t = t.Underlying().(*types.Array).Elem()
		}
	}
	return t
}

func (ex *Exec) rootVal(st *State, p *Place) (string, types.Type) {
	switch p.kind {
	case pkCell:
		v, ok := st.cells[p.alloc]
		if !ok {
			unsup("cell %s not live", p.alloc.Comment)
		}
		t, ok2 := ex.valTermOK(v)
		if !ok2 {
			unsup("cell %s holds a non-term", p.alloc.Comment)
		}
		return t, p.alloc.Type().(*types.Pointer).Elem()
	case pkHeap:
		return ex.vc.loadPtr(st, p.ref, p.root), p.root
	case pkSlice:
		return fmt.Sprintf("(select %s %s)", ex.vc.sliceArr(st, p.slice.typ, p.slice.t), p.idx), p.slice.typ.Underlying().(*types.Slice).Elem()
	}
	panic("rootVal")
}

func (ex *Exec) load(st *State, p *Place) Val {
	S := ex.eng.S
	if p.kind == pkCell && len(p.path) == 0 {
		v, ok := st.cells[p.alloc]
		if !ok {
			unsup("cell %s not live", p.alloc.Comment)
		}
		return v
	}
	t, typ := ex.rootVal(st, p)
	for _, s := range p.path {
		if s.field >= 0 {
			info := S.structInfoOf(typ)
			t = fmt.Sprintf("(%s %s)", info.fields[s.field], t)
			typ = typ.Underlying().(*types.Struct).Field(s.field).Type()
		} else {
			t = fmt.Sprintf("(select %s %s)", t, s.idx)
			typ = typ.Underlying().(*types.Array).Elem()
		}
	}
	v := Val{t: t, typ: typ}
	if _, ok := typ.Underlying().(*types.Slice); ok {
		v.origin = p
		if p.kind == pkHeap && !p.phantom {
			v.backing = p
		}
	}
	ex.assumeAllocated(st, v)
	return v
}

func (ex *Exec) assumeAllocated(st *State, v Val) {
	if v.place != nil || v.t == "" || v.t == "0" {
		return
	}
	switch v.typ.Underlying().(type) {
	case *types.Slice:
		// type invariant of slice values: 0 <= len, nil implies empty
		sn := ex.eng.S.sortOf(v.typ)
		if !strings.HasPrefix(v.t, "(mk_") {
			ex.vc.assume(st.pc, fmt.Sprintf("(and (>= (len_%s %s) 0) (=> (nil_%s %s) (= (len_%s %s) 0)))", sn, v.t, sn, v.t, sn, v.t))
		}
	case *types.Pointer, *types.Map:
		if strings.HasPrefix(v.t, "(- ") {
			return
		}
		ex.vc.assume(st.pc, fmt.Sprintf("(and (<= 0 %s) (< %s %s))", v.t, v.t, st.next))
	}
}

func (ex *Exec) updPath(S *Sorts, cur string, typ types.Type, path []Sel, nv string) string {
	if len(path) == 0 {
		return nv
	}
	s := path[0]
	if s.field < 0 {
		et := typ.Underlying().(*types.Array).Elem()
		inner := ex.updPath(S, fmt.Sprintf("(select %s %s)", cur, s.idx), et, path[1:], nv)
		return fmt.Sprintf("(store %s %s %s)", cur, s.idx, inner)
	}
	st := typ.Underlying().(*types.Struct)
	info := S.structInfoOf(typ)
	var b strings.Builder
	b.WriteString("(" + info.ctor)
	for i := 0; i < st.NumFields(); i++ {
		fv := fmt.Sprintf("(%s %s)", info.fields[i], cur)
		if i == s.field {
			fv = ex.updPath(S, fv, st.Field(i).Type(), path[1:], nv)
		}
		b.WriteString(" " + fv)
	}
	b.WriteString(")")
	return b.String()
}

func (ex *Exec) store(fr *Frame, st *State, p *Place, v Val, pos token.Pos) {
	S := ex.eng.S
	vc := ex.vc
	if p.kind == pkCell && len(p.path) == 0 {
		v.origin = nil
		st.cells[p.alloc] = v
		return
	}
	nv, ok := ex.valTermOK(v)
	if !ok {
		unsup("storing a non-term value into memory")
	}
	switch p.kind {
	case pkCell:
		cur, typ := ex.rootVal(st, p)
		cur = vc.define("v", S.sortOf(typ), cur)
		st.cells[p.alloc] = Val{t: vc.define("v", S.sortOf(typ), ex.updPath(S, cur, typ, p.path, nv)), typ: typ}
	case pkHeap:
		key, sort := S.heapKeyPtr(p.root)
		if p.phantom && len(p.path) == 0 {
			// init-once read-only cell: constrain the (so far unconstrained) content instead of writing
			vc.assume(st.pc, eq(vc.loadPtr(st, p.ref, p.root), nv))
			return
		}
		ex.frameCheck(fr, st, modTarget{heapKey: key, ref: p.ref, path: selInts(p.path), elem: p.root}, pos)
		h := vc.heap(st, key, sort)
		var nobj string
		if len(p.path) == 0 {
			nobj = nv
		} else {
			cur := vc.define("o", S.sortOf(p.root), fmt.Sprintf("(select %s %s)", h, p.ref))
			nobj = ex.updPath(S, cur, p.root, p.path, nv)
		}
		vc.setHeap(st, key, sort, fmt.Sprintf("(store %s %s %s)", h, p.ref, nobj))
	case pkSlice:
		if sn := S.sortOf(p.slice.typ); S.handle[sn] {
			// handle-based slice: true reference semantics through the slice heap
			et := p.slice.typ.Underlying().(*types.Slice).Elem()
			k, srt := S.sliceHeap(sn)
			h := vc.heap(st, k, srt)
			ref := fmt.Sprintf("(arr_%s %s)", sn, p.slice.t)
			cur := fmt.Sprintf("(select (select %s %s) %s)", h, ref, p.idx)
			inner := ex.updPath(S, cur, et, p.path, nv)
			vc.setHeap(st, k, srt, fmt.Sprintf("(store %s %s (store (select %s %s) %s %s))", h, ref, h, ref, p.idx, inner))
			return
		}
		// write-back through the place the slice header was loaded from (value semantics, A-APPEND)
		if p.slice.backing != nil && (p.slice.origin == nil || p.slice.origin.kind != pkHeap) {
			// the header reached this variable from a heap object (assignment, parameter): the element store also
			// hits that object's backing array
			fr.clobberSlice(st, Val{t: p.slice.t, typ: p.slice.typ, origin: p.slice.backing}, pos, "element store through a slice that shares a heap object's backing array")
		}
		if p.slice.origin == nil {
			vc.droppedStores++
			vc.note("slice element store without known origin dropped (functional posts about that slice are not trusted)")
			return
		}
		sn := S.sortOf(p.slice.typ)
		et := p.slice.typ.Underlying().(*types.Slice).Elem()
		cur := fmt.Sprintf("(select (arr_%s %s) %s)", sn, p.slice.t, p.idx)
		inner := ex.updPath(S, cur, et, p.path, nv)
		ns := fmt.Sprintf("(mk_%s (store (arr_%s %s) %s %s) (len_%s %s) (nil_%s %s))", sn, sn, p.slice.t, p.idx, inner, sn, p.slice.t, sn, p.slice.t)
		ex.store(fr, st, p.slice.origin, Val{t: vc.define("sl", sn, ns), typ: p.slice.typ}, pos)
	}
}

func selInts(p []Sel) []int {
	var out []int
	for _, s := range p {
		if s.field < 0 {
			break
		}
		out = append(out, s.field)
	}
	return out
}

func constantString(c *ssa.Const) string { return constant.StringVal(c.Value) }

// funcID registers a known function value and returns its id term (a negative integer; unknown function
// values such as callback parameters are non-negative, nil is 0).
func (ex *Exec) funcID(c *Closure) string {
	if ex.closures == nil {
		ex.closures = map[string]*Closure{}
	}
	if len(c.bindings) == 0 {
		for id, o := range ex.closures {
			if o.fn == c.fn && len(o.bindings) == 0 {
				return id
			}
		}
	}
	id := fmt.Sprintf("(- %d)", 1000+len(ex.closures))
	ex.closures[id] = c
	return id
}
