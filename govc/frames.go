package main

func (e *Engine) frameUnits(spec string) []frameUnit { return nil }
