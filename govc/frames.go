package main

import (
	"go/types"
	"sort"
	"strings"
)

// frameUnits synthesises a read-only contract (modifies nothing: every write must target memory allocated
// during the call) for every exported method of the named receiver type, so that a newly added method is
// covered without annotation (C16).
func (e *Engine) frameUnits(spec string) []frameUnit {
	// spec: "pkgname.(*T)" optionally followed by ",pkgname.Func" entries
	var out []frameUnit
	for _, item := range strings.Split(spec, ",") {
		item = strings.TrimSpace(item)
		if !strings.Contains(item, "(") {
			if fn := e.findFunc(item); fn != nil {
				out = append(out, frameUnit{fn, &FuncContract{Header: "func " + item + " [synthesised read-only frame]", Name: fn.Name(), Aspect: "readonly", HasMod: true, Loops: map[int]*LoopSpec{}}})
			}
			continue
		}
		i := strings.Index(item, ".")
		pkgName := item[:i]
		tn := strings.Trim(item[i+1:], "(*)")
		for path, sp := range e.spkgs {
			if sp.Pkg.Name() != pkgName || !(path == e.modPath || strings.HasPrefix(path, e.modPath+"/")) {
				continue
			}
			o := sp.Pkg.Scope().Lookup(tn)
			if o == nil {
				continue
			}
			pt := types.NewPointer(o.Type())
			ms := types.NewMethodSet(pt)
			var names []string
			for j := 0; j < ms.Len(); j++ {
				m := ms.At(j).Obj()
				if m.Exported() {
					names = append(names, m.Name())
				}
			}
			sort.Strings(names)
			for _, n := range names {
				fn := e.prog.LookupMethod(pt, sp.Pkg, n)
				if fn == nil || fn.Synthetic != "" {
					continue
				}
				fc := &FuncContract{Header: "func (*" + tn + ") " + n + " [synthesised read-only frame]", Name: n, RecvType: "*" + tn, Aspect: "readonly", HasMod: true, Loops: map[int]*LoopSpec{}, PkgPath: path}
				// the input invariants (requires) of the method's own contract, when it has one, also apply here
				if mc := e.contractFor(fn, "main"); mc != nil && !mc.Inline {
					fc.Requires = mc.Requires
					fc.Loops = mc.Loops
				}
				out = append(out, frameUnit{fn, fc})
			}
		}
	}
	return out
}
