package main

import (
	"fmt"
	"go/token"
	"go/types"
	"sort"
	"strings"

	"golang.org/x/tools/go/ssa"
)

// ---------------------------------------------------------------- write sets (syntactic over-approximation)

type writeSet struct {
	heapCells map[*ssa.Alloc]bool // address-taken locals of the scanned function stored to directly
	cells  map[*ssa.Alloc]bool
	heaps  map[string]string // heap key -> sort
	allocs bool
	all    bool // everything may change (extern that havocs)
}

func (ex *Exec) scanWrites(fn *ssa.Function, blocks map[*ssa.BasicBlock]bool, ws *writeSet, depth int, seen map[*ssa.Function]bool) {
	S := ex.eng.S
	addPtrHeap := func(t types.Type) {
		k, s := S.heapKeyPtr(t)
		ws.heaps[k] = s
		ex.vc.heapSorts[k] = s
	}
	addMapHeap := func(mt *types.Map) {
		dk, ds, vk, vs := S.heapKeyMap(mt)
		ws.heaps[dk] = ds
		ws.heaps[vk] = vs
		ex.vc.heapSorts[dk] = ds
		ex.vc.heapSorts[vk] = vs
	}
	var rootOf func(v ssa.Value) ssa.Value
	rootOf = func(v ssa.Value) ssa.Value {
		switch x := v.(type) {
		case *ssa.FieldAddr:
			return rootOf(x.X)
		case *ssa.IndexAddr:
			if _, ok := x.X.Type().Underlying().(*types.Pointer); ok {
				return rootOf(x.X)
			}
			return x
		}
		return v
	}
	for _, b := range fn.Blocks {
		if blocks != nil && !blocks[b] {
			continue
		}
		for _, ins := range b.Instrs {
			switch ins := ins.(type) {
			case *ssa.Alloc:
				if ins.Heap {
					ws.allocs = true
					if !(&Frame{ex: ex}).readOnlyCell(ins) {
						addPtrHeap(ins.Type().(*types.Pointer).Elem())
					}
				} else {
					ws.cells[ins] = true
				}
			case *ssa.MakeMap:
				ws.allocs = true
				addMapHeap(ins.Type().Underlying().(*types.Map))
			case *ssa.Store:
				r := rootOf(ins.Addr)
				if a, ok := r.(*ssa.Alloc); ok && !a.Heap {
					ws.cells[a] = true
				} else if a, ok := r.(*ssa.Alloc); ok && a.Heap && (&Frame{ex: ex}).readOnlyCell(a) {
					// initialisation of a read-only (phantom) cell: no heap write
				} else if a, ok := r.(*ssa.Alloc); ok && a.Heap && depth == 0 && ws.heapCells != nil {
					ws.heapCells[a] = true
					addPtrHeap(a.Type().(*types.Pointer).Elem())
				} else if ia, ok := r.(*ssa.IndexAddr); ok {
					// slice element store: written back through the origin place; approximate by the origin's root
					if ld, ok := ia.X.(*ssa.UnOp); ok {
						rr := rootOf(ld.X)
						if a, ok := rr.(*ssa.Alloc); ok && !a.Heap {
							ws.cells[a] = true
						} else if pt, ok := rr.Type().Underlying().(*types.Pointer); ok {
							addPtrHeap(pt.Elem())
						}
					}
				} else if pt, ok := r.Type().Underlying().(*types.Pointer); ok {
					addPtrHeap(pt.Elem())
				}
			case *ssa.MapUpdate:
				addMapHeap(ins.Map.Type().Underlying().(*types.Map))
			case *ssa.Call:
				if b, ok := ins.Common().Value.(*ssa.Builtin); ok && (b.Name() == "copy" || b.Name() == "append") {
					// copy(dst, src) and append(s[:i], ...) write into the backing array of their first operand
					v := ins.Common().Args[0]
					isWrite := b.Name() == "copy"
					if sl, ok := v.(*ssa.Slice); ok {
						if sl.High != nil {
							isWrite = true
						}
						v = sl.X
					}
					if ld, ok := v.(*ssa.UnOp); ok && isWrite {
						rr := rootOf(ld.X)
						if a, ok := rr.(*ssa.Alloc); ok && !a.Heap {
							ws.cells[a] = true
						} else if pt, ok := rr.Type().Underlying().(*types.Pointer); ok {
							addPtrHeap(pt.Elem())
						}
					}
				}
				ex.scanCallWrites(ins.Common(), ws, depth, seen)
			}
		}
	}
}

func (ex *Exec) scanCallWrites(c *ssa.CallCommon, ws *writeSet, depth int, seen map[*ssa.Function]bool) {
	if c.IsInvoke() {
		if fc := ex.externFor(c.Method.FullName()); fc != nil {
			ex.scanContractWrites(fc, nil, ws)
		}
		return
	}
	switch v := c.Value.(type) {
	case *ssa.Builtin:
		if v.Name() == "delete" {
			mt := c.Args[0].Type().Underlying().(*types.Map)
			dk, ds, _, _ := ex.eng.S.heapKeyMap(mt)
			ws.heaps[dk] = ds
		}
		return
	case *ssa.Function:
		ex.scanFuncWrites(v, ws, depth, seen)
	case *ssa.MakeClosure:
		ex.scanFuncWrites(v.Fn.(*ssa.Function), ws, depth, seen)
	default:
		// dynamic call: closures created in this function are scanned when created; callbacks are assumed effect-free (A-CALLBACK)
	}
}

func (ex *Exec) scanFuncWrites(fn *ssa.Function, ws *writeSet, depth int, seen map[*ssa.Function]bool) {
	if ex.eng.inModule(fn) {
		if fc := ex.calleeContract(fn); fc != nil && !fc.Inline {
			ex.scanContractWrites(fc, fn, ws)
			ws.allocs = true
			return
		}
		if seen[fn] || depth > 8 {
			return
		}
		seen[fn] = true
		inner := &writeSet{cells: map[*ssa.Alloc]bool{}, heaps: ws.heaps}
		ex.scanWrites(fn, nil, inner, depth+1, seen)
		for _, a := range fn.AnonFuncs {
			ex.scanWrites(a, nil, inner, depth+1, seen)
		}
		ws.allocs = ws.allocs || inner.allocs
		ws.all = ws.all || inner.all
		return
	}
	if fo, ok := fn.Object().(*types.Func); ok {
		if fc := ex.externFor(fo.FullName()); fc != nil {
			ex.scanContractWrites(fc, fn, ws)
		}
	}
}

func (ex *Exec) scanContractWrites(fc *FuncContract, fn *ssa.Function, ws *writeSet) {
	if fc.HavocAll {
		ws.all = true
		return
	}
	for _, k := range ex.modHeapKeys(fc, fn) {
		ws.heaps[k] = ex.vc.heapSorts[k]
	}
	if !fc.Pure {
		ws.allocs = true
	}
}

// modHeapKeys computes the heap keys a contract's modifies clause may touch (type-level).
func (ex *Exec) modHeapKeys(fc *FuncContract, fn *ssa.Function) []string {
	if len(fc.Modifies) == 0 {
		return nil
	}
	dummy := ex.eng.newVC("modkeys")
	st := &State{pc: "true", cells: map[*ssa.Alloc]Val{}, heaps: map[string]string{}, ghosts: map[string]TVal{}, next: "0"}
	tc := &TrCtx{vc: dummy, vars: map[string]TVal{}, st: st, old: st}
	if fn != nil {
		if fn.Pkg != nil {
			tc.pkg = fn.Pkg.Pkg
		}
		for _, p := range fn.Params {
			tc.vars[p.Name()] = TVal{"d_" + p.Name(), p.Type()}
		}
	} else if fc.PkgPath != "" {
		tc.pkg = ex.eng.tpkgs[fc.PkgPath]
	}
	var keys []string
	func() {
		defer func() {
			if r := recover(); r != nil {
				if _, ok := r.(trErr); ok {
					return
				}
				panic(r)
			}
		}()
		ts, whole := ex.resolveTargets(tc, fc.Modifies)
		for _, t := range ts {
			keys = append(keys, t.heapKey)
			if t.isMap {
				_, _, vk, vs := ex.eng.S.heapKeyMap(t.mtype)
				keys = append(keys, vk)
				ex.vc.heapSorts[vk] = vs
			}
		}
		for _, k := range sortedKeys(whole) {
			keys = append(keys, k)
		}
	}()
	return keys
}

// ---------------------------------------------------------------- modifies targets

func (ex *Exec) resolveTargets(tc *TrCtx, mods []ModTarget) ([]modTarget, map[string]bool) {
	S := ex.eng.S
	var out []modTarget
	whole := map[string]bool{}
	var expanded []ModTarget
	for _, m := range mods {
		if m.Group != "" {
			g, ok := ex.eng.cs.Groups[m.Group]
			if !ok {
				trFail("unknown heap group %s", m.Group)
			}
			for _, te := range g {
				expanded = append(expanded, ModTarget{Heap: te, Src: m.Src})
			}
			continue
		}
		expanded = append(expanded, m)
	}
	for _, m := range expanded {
		if m.Ghost != "" {
			if !ex.eng.isGhost(m.Ghost) {
				trFail("unknown ghost variable %s", m.Ghost)
			}
			whole[ghostKey(m.Ghost)] = true
			continue
		}
		if m.Heap != nil {
			t := tc.resolveType(m.Heap)
			if p, ok := t.Underlying().(*types.Pointer); ok {
				t = p.Elem()
			}
			if mt, ok := t.Underlying().(*types.Map); ok {
				dk, ds, vk, vs := S.heapKeyMap(mt)
				whole[dk], whole[vk] = true, true
				ex.vc.heapSorts[dk], ex.vc.heapSorts[vk] = ds, vs
			} else if _, ok := t.Underlying().(*types.Slice); ok {
				sn := S.sortOf(t)
				if S.handle[sn] {
					k, srt := S.sliceHeap(sn)
					whole[k] = true
					ex.vc.heapSorts[k] = srt
				}
			} else {
				k, s := S.heapKeyPtr(t)
				whole[k] = true
				ex.vc.heapSorts[k] = s
			}
			continue
		}
		var conds []string
		n := *tc
		n.derefs = &conds
		t := ex.resolveTarget(&n, m.E, m.Src, m.MapOf)
		tc.side = append(tc.side, n.side...)
		conds = append(conds, not(eq(t.ref, "0")))
		t.def = tc.vc.define("tdef", "Bool", and(conds...))
		out = append(out, t)
	}
	return out, whole
}

func (ex *Exec) resolveTarget(tc *TrCtx, e Expr, src string, mapOf bool) modTarget {
	S := ex.eng.S
	if mapOf {
		v := tc.tr(e)
		mt, ok := v.typ.Underlying().(*types.Map)
		if !ok {
			trFail("modifies map %s: not a map (%v)", src, v.typ)
		}
		dk, ds, _, _ := S.heapKeyMap(mt)
		ex.vc.heapSorts[dk] = ds
		return modTarget{heapKey: dk, isMap: true, ref: v.t, mtype: mt, src: src}
	}
	switch e := e.(type) {
	case *EUnary:
		if e.Op == "*" {
			v := tc.tr(e.X)
			p, ok := isPtr(v.typ)
			if !ok {
				trFail("modifies %s: not a pointer", src)
			}
			k, s := S.heapKeyPtr(p.Elem())
			ex.vc.heapSorts[k] = s
			return modTarget{heapKey: k, ref: v.t, elem: p.Elem(), src: src}
		}
	case *EField:
		// find the object holding the field
		x := e.X
		xv := func() (v TVal, ok bool) {
			defer func() {
				if r := recover(); r != nil {
					if _, is := r.(trErr); is {
						ok = false
						return
					}
					panic(r)
				}
			}()
			return tc.tr(x), true
		}
		if v, ok := xv(); ok {
			if p, isP := isPtr(v.typ); isP {
				path, _, found := findField(p.Elem(), e.Name)
				if !found {
					trFail("modifies %s: no field %s", src, e.Name)
				}
				k, s := S.heapKeyPtr(p.Elem())
				ex.vc.heapSorts[k] = s
				return modTarget{heapKey: k, ref: v.t, path: path, elem: p.Elem(), src: src}
			}
			// struct value held inside another object: extend the parent's target
			parent := ex.resolveTarget(tc, x, src, false)
			path, _, found := findField(v.typ, e.Name)
			if !found {
				trFail("modifies %s: no field %s", src, e.Name)
			}
			parent.path = append(append([]int{}, parent.path...), path...)
			return parent
		}
	}
	trFail("unsupported modifies target %s (use *p, p.f, map m, heap T)", src)
	return modTarget{}
}

func (ex *Exec) applyHavoc(st *State, ts []modTarget, whole map[string]bool) {
	S := ex.eng.S
	vc := ex.vc
	for _, k := range sortedKeys(whole) {
		if g, ok := ghostOfKey(k); ok {
			st.ghosts[g] = TVal{vc.fresh("gh_"+g, "Bool"), tBool}
			continue
		}
		st.heaps[k] = vc.fresh("hv_"+k, vc.heapSorts[k])
	}
	for _, t := range ts {
		if whole[t.heapKey] {
			continue
		}
		if t.isMap {
			dk, ds, vk, vs := S.heapKeyMap(t.mtype)
			ks := S.sortOf(t.mtype.Key())
			fd := vc.fresh("hd", "(Array "+ks+" Bool)")
			fv := vc.fresh("hvv", "(Array "+ks+" "+S.sortOf(t.mtype.Elem())+")")
			d0, v0 := vc.heap(st, dk, ds), vc.heap(st, vk, vs)
			vc.setHeap(st, dk, ds, ite(t.defOr(), fmt.Sprintf("(store %s %s %s)", d0, t.ref, fd), d0))
			vc.setHeap(st, vk, vs, ite(t.defOr(), fmt.Sprintf("(store %s %s %s)", v0, t.ref, fv), v0))
			continue
		}
		sort := vc.heapSorts[t.heapKey]
		h := vc.heap(st, t.heapKey, sort)
		if len(t.path) == 0 {
			nv := vc.fresh("hv", S.sortOf(t.elem))
			vc.setHeap(st, t.heapKey, sort, ite(t.defOr(), fmt.Sprintf("(store %s %s %s)", h, t.ref, nv), h))
			continue
		}
		ft := t.elem
		for _, i := range t.path {
			ft = ft.Underlying().(*types.Struct).Field(i).Type()
		}
		nv := vc.fresh("hv", S.sortOf(ft))
		var sels []Sel
		for _, i := range t.path {
			sels = append(sels, Sel{field: i})
		}
		cur := vc.define("o", S.sortOf(t.elem), fmt.Sprintf("(select %s %s)", h, t.ref))
		vc.setHeap(st, t.heapKey, sort, ite(t.defOr(), fmt.Sprintf("(store %s %s %s)", h, t.ref, ex.updPath(S, cur, t.elem, sels, nv)), h))
	}
}

func (t modTarget) defOr() string {
	if t.def == "" {
		return "true"
	}
	return t.def
}

// frameCheck: a write must hit memory that is fresh for, or listed by, every active scope.
func (ex *Exec) frameCheck(fr *Frame, st *State, w modTarget, pos token.Pos) {
	if !ex.frames {
		return
	}
	for _, sc := range fr.activeScopes() {
		if sc.wholeHeaps[w.heapKey] {
			continue
		}
		alts := []string{fmt.Sprintf("(>= %s %s)", w.ref, sc.freshFrom)}
		if w.def != "" {
			alts = append(alts, not(w.def))
		}
		for _, t := range sc.targets {
			if t.heapKey != w.heapKey || t.isMap != w.isMap {
				continue
			}
			if len(t.path) > len(w.path) {
				continue
			}
			ok := true
			for i := range t.path {
				if t.path[i] != w.path[i] {
					ok = false
				}
			}
			if ok {
				alts = append(alts, and(t.defOr(), eq(w.ref, t.ref)))
			}
		}
		what := "write"
		if w.src != "" {
			what = "callee may modify " + w.src
		}
		kind := "frame"
		if sc.kind == "loop" {
			kind = "frame@" + sc.name
		}
		if fr.fn != ex.top {
			kind += "@" + fr.fn.Name()
		}
		key := kind + "|" + st.pc + "|" + w.ref + "|" + w.heapKey
		if ex.nilChecked[key] {
			continue
		}
		ex.nilChecked[key] = true
		ex.vc.oblige(kind, fmt.Sprintf("%s to %s stays within modifies {%s} or fresh memory", what, w.heapKey, strings.Join(sc.srcs, ", ")), ex.pos(pos), st.pc, or(alts...))
	}
}

func (fr *Frame) activeScopes() []*scope {
	var out []*scope
	out = append(out, fr.parentScopes...)
	if fr.isTop && fr.ex.topScope != nil {
		out = append(out, fr.ex.topScope)
	}
	if fr.curBlock != nil {
		for _, li := range fr.inLoops[fr.curBlock] {
			if li.scope != nil {
				out = append(out, li.scope)
			}
		}
	}
	return out
}

// ---------------------------------------------------------------- loop protocol

func (fr *Frame) loopCtx(li *loopInfo, st *State) *TrCtx {
	ex := fr.ex
	tc := ex.contractCtx(st, ex.entry)
	if fr.fn != ex.top && fr.fn.Parent() != ex.top {
		tc.vars = map[string]TVal{}
		if fr.fn.Pkg != nil {
			tc.pkg = fr.fn.Pkg.Pkg
		}
	}
	tc.locals = func(name string) (TVal, bool) { return fr.localByName(st, name) }
	if fr.fn == ex.top {
		// in invariants a parameter name means the current value of the (possibly reassigned) parameter;
		// old(p) means its value on entry
		tc.entryVars = map[string]TVal{}
		for k, v := range ex.paramVals {
			tc.entryVars[k] = v
			if _, isLocal := fr.localByName(st, k); isLocal {
				delete(tc.vars, k)
			}
		}
	}
	tc.addrOf = func(name string) (TVal, bool) { return fr.addrByName(name) }
	if li != nil {
		if li.seenName != "" {
			if g, ok := st.ghosts[li.seenName]; ok {
				tc.vars["seen"] = g
			}
		}
		if li.idxCell != nil {
			if v, ok := st.cells[li.idxCell]; ok {
				tc.vars["idx"] = TVal{fmt.Sprintf("(+ %s 1)", v.t), tInt}
				tc.vars[fmt.Sprintf("idx%d", li.ordinal)] = tc.vars["idx"]
			}
		}
	}
	// ghosts of enclosing loops by ordinal
	for name, g := range st.ghosts {
		if ex.eng.isGhost(name) {
			continue // global ghosts are state-dependent: resolved through the state, so that old() works
		}
		tc.vars[name] = g
	}
	for _, l2 := range fr.loops {
		if l2.idxCell != nil {
			if v, ok := st.cells[l2.idxCell]; ok {
				tc.vars[fmt.Sprintf("idx%d", l2.ordinal)] = TVal{fmt.Sprintf("(+ %s 1)", v.t), tInt}
			}
		}
	}
	return tc
}

func (fr *Frame) localByName(st *State, name string) (TVal, bool) {
	ex := fr.ex
	var found []TVal
	for _, b := range fr.fn.Blocks {
		for _, ins := range b.Instrs {
			a, ok := ins.(*ssa.Alloc)
			if !ok || a.Comment != name {
				continue
			}
			if !a.Heap {
				if v, ok := st.cells[a]; ok {
					if t, ok2 := ex.valTermOK(v); ok2 {
						found = append(found, TVal{t, v.typ})
					}
				}
			} else if pv, ok := fr.env[a]; ok && pv.place != nil {
				v := ex.load(st, pv.place)
				found = append(found, TVal{v.t, v.typ})
			}
		}
	}
	if len(found) == 0 {
		return TVal{}, false
	}
	if len(found) > 1 {
		// a parameter shadowed by an inner declaration: the name denotes the parameter
		for _, b := range fr.fn.Blocks {
			for _, ins := range b.Instrs {
				st0, ok := ins.(*ssa.Store)
				if !ok {
					continue
				}
				p, isParam := st0.Val.(*ssa.Parameter)
				a, isAlloc := st0.Addr.(*ssa.Alloc)
				if !isParam || !isAlloc || p.Name() != name || a.Comment != name {
					continue
				}
				if !a.Heap {
					if v, ok := st.cells[a]; ok {
						if t, ok2 := ex.valTermOK(v); ok2 {
							return TVal{t, v.typ}, true
						}
					}
				} else if pv, ok := fr.env[a]; ok && pv.place != nil {
					v := ex.load(st, pv.place)
					return TVal{v.t, v.typ}, true
				}
			}
		}
	}
	if len(found) > 1 {
		for _, f := range found[1:] {
			if f.t != found[0].t {
				trFail("local %s is ambiguous in %s (shadowed declarations)", name, fr.fn.Name())
			}
		}
	}
	return found[0], true
}

func (fr *Frame) addrByName(name string) (TVal, bool) {
	for _, b := range fr.fn.Blocks {
		for _, ins := range b.Instrs {
			a, ok := ins.(*ssa.Alloc)
			if !ok || a.Comment != name || !a.Heap {
				continue
			}
			if pv, ok := fr.env[a]; ok && pv.place != nil && len(pv.place.path) == 0 {
				return TVal{pv.place.ref, a.Type()}, true
			}
		}
	}
	return TVal{}, false
}

func (fr *Frame) loopSpec(li *loopInfo) *LoopSpec {
	if fr.fn == fr.ex.top && fr.ex.contract != nil {
		return fr.ex.contract.Loops[li.ordinal]
	}
	// loops of an anonymous function of the function under contract: "loop <1000*k+n>" = loop n of its k-th closure
	if fr.fn.Parent() == fr.ex.top && fr.ex.contract != nil {
		for k, a := range fr.ex.top.AnonFuncs {
			if a == fr.fn {
				return fr.ex.contract.Loops[1000*(k+1)+li.ordinal]
			}
		}
	}
	// loops of inlined callees may be annotated on the callee's own (inline) contract
	for _, c := range fr.ex.eng.contracts[fr.fn] {
		if c.Inline {
			return c.Loops[li.ordinal]
		}
	}
	return nil
}

func (fr *Frame) enterLoop(li *loopInfo, cur *State) *State {
	ex := fr.ex
	vc := ex.vc
	S := ex.eng.S
	li.spec = fr.loopSpec(li)
	lname := fmt.Sprintf("loop%d", li.ordinal)
	if fr.fn != ex.top {
		lname += "@" + fr.fn.Name()
	}
	// ghosts
	if li.rng != nil {
		rs := fr.rangeSt[li.rng]
		if rs == nil {
			unsup("range instruction not evaluated before its loop")
		}
		li.seenName = fmt.Sprintf("seen%d", li.ordinal)
		if fr.fn != ex.top {
			li.seenName += "_" + fr.fn.Name()
		}
		rs.seen = li.seenName
		ks := S.sortOf(rs.mt.Key())
		cur.ghosts[li.seenName] = TVal{fmt.Sprintf("((as const (Array %s Bool)) false)", ks), &SetT{rs.mt.Key()}}
	}
	// 1. invariant on entry
	if li.spec != nil {
		tc := fr.loopCtx(li, cur)
		for i, inv := range li.spec.Invariants {
			g := ex.trClause(tc, inv)
			vc.oblige("inv-entry@"+lname, fmt.Sprintf("invariant %d holds on loop entry: %s", i+1, inv.Src), ex.pos(li.pos), cur.pc, g)
		}
	}
	li.entrySt = cur.clone()
	// 2. havoc
	ws := &writeSet{cells: map[*ssa.Alloc]bool{}, heaps: map[string]string{}, heapCells: map[*ssa.Alloc]bool{}}
	ex.scanWrites(fr.fn, li.body, ws, 0, map[*ssa.Function]bool{})
	h := cur.clone()
	for _, a := range sortedAllocs(ws.cells) {
		v, live := h.cells[a]
		if !live {
			continue
		}
		if _, ok := ex.valTermOK(v); !ok {
			unsup("loop assigns a non-term local %s", a.Comment)
		}
		et := a.Type().(*types.Pointer).Elem()
		nv := Val{t: vc.fresh("l_"+sanitize(a.Comment), S.sortOf(et)), typ: et, backing: v.backing}
		h.cells[a] = nv
		ex.assumeAllocated(h, nv)
	}
	if ws.allocs || ws.all {
		n := vc.fresh("next", "Int")
		vc.assume("true", fmt.Sprintf("(>= %s %s)", n, cur.next))
		h.next = n
	}
	var lsTargets []modTarget
	lsWhole := map[string]bool{}
	hasMod := li.spec != nil && li.spec.HasMod
	if hasMod {
		tc := fr.loopCtx(li, cur)
		lsTargets, lsWhole = ex.resolveTargets(tc, li.spec.Modifies)
		tc.flush()
		// address-taken locals of this function that the loop body assigns (range copies, accumulators whose
		// address is passed on) are implicitly part of the loop's frame
		var hcs []*ssa.Alloc
		for a := range ws.heapCells {
			hcs = append(hcs, a)
		}
		sort.Slice(hcs, func(i, j int) bool { return hcs[i].Pos() < hcs[j].Pos() })
		for _, a := range hcs {
			v, ok := fr.env[a]
			if !ok || v.place == nil || v.place.kind != pkHeap || v.place.phantom || len(v.place.path) != 0 {
				continue
			}
			et := a.Type().(*types.Pointer).Elem()
			k, srt := S.heapKeyPtr(et)
			vc.heapSorts[k] = srt
			lsTargets = append(lsTargets, modTarget{heapKey: k, ref: v.place.ref, elem: et, src: "local " + a.Comment})
		}
	}
	if ws.all {
		ex.havocAll(h)
	} else if hasMod {
		ex.applyHavoc(h, lsTargets, lsWhole)
	} else {
		for _, k := range sortedKeys(ws.heaps) {
			if g, ok := ghostOfKey(k); ok {
				h.ghosts[g] = TVal{vc.fresh("gh_"+g, "Bool"), tBool}
				continue
			}
			h.heaps[k] = vc.fresh("hl_"+k, vc.heapSorts[k])
		}
	}
	for _, g := range sortedKeys(h.ghosts) {
		v := h.ghosts[g]
		if g == li.seenName {
			h.ghosts[g] = TVal{vc.fresh("seen", S.sortOf(v.typ)), v.typ}
		}
	}
	// inner-loop ghosts are re-initialised when their loop is entered
	if li.idxCell != nil {
		if v, ok := h.cells[li.idxCell]; ok {
			vc.assume(h.pc, fmt.Sprintf("(>= %s (- 1))", v.t))
			// structural auto-invariant of range loops: the index stays below the length evaluated before the loop
			if iff, ok := li.header.Instrs[len(li.header.Instrs)-1].(*ssa.If); ok {
				if cmp, ok := iff.Cond.(*ssa.BinOp); ok && cmp.Op == token.LSS {
					if lv, ok := fr.env[cmp.Y]; ok && lv.t != "" {
						vc.assume(h.pc, fmt.Sprintf("(< %s %s)", v.t, lv.t))
					} else if c, ok := cmp.Y.(*ssa.Const); ok {
						vc.assume(h.pc, fmt.Sprintf("(< %s %d)", v.t, c.Int64()))
					}
				}
			}
		}
	}
	if hasMod {
		var srcs []string
		for _, m := range li.spec.Modifies {
			srcs = append(srcs, m.Src)
		}
		li.scope = &scope{name: lname, kind: "loop", freshFrom: h.next, targets: lsTargets, wholeHeaps: lsWhole, srcs: srcs}
	}
	// 3. assume invariant
	if li.spec != nil {
		tc := fr.loopCtx(li, h)
		for _, inv := range li.spec.Invariants {
			vc.assume(h.pc, ex.trClause(tc, inv))
		}
	}
	return h
}

func (fr *Frame) backEdge(li *loopInfo, st *State) {
	ex := fr.ex
	if li.spec == nil {
		return
	}
	lname := fmt.Sprintf("loop%d", li.ordinal)
	if fr.fn != ex.top {
		lname += "@" + fr.fn.Name()
	}
	tc := fr.loopCtx(li, st)
	for i, inv := range li.spec.Invariants {
		g := ex.trClause(tc, inv)
		ex.vc.oblige("inv-back@"+lname, fmt.Sprintf("invariant %d is preserved by the loop body: %s", i+1, inv.Src), ex.pos(li.pos), st.pc, g)
	}
}

func (ex *Exec) havocAll(st *State) {
	st.epoch++
	ex.vc.epochs++
	st.epochTag = ex.vc.epochs
	st.heaps = map[string]string{}
}

func (ex *Exec) trClause(tc *TrCtx, c Clause) (out string) {
	defer func() {
		if r := recover(); r != nil {
			if te, ok := r.(trErr); ok {
				panic(trErr(fmt.Sprintf("%s:%d: %s", c.File, c.Line, string(te))))
			}
			panic(r)
		}
	}()
	return tc.trBool(c.E)
}

// ---------------------------------------------------------------- read-only (phantom) cells

func (fr *Frame) readOnlyCell(a *ssa.Alloc) bool {
	stores := 0
	for _, r := range *a.Referrers() {
		switch r := r.(type) {
		case *ssa.Store:
			if r.Addr != a || r.Block() != a.Block() {
				return false
			}
			stores++
		case *ssa.UnOp, *ssa.DebugRef:
		case *ssa.FieldAddr:
			if !fr.ex.readOnlyAddr(r, 0) {
				return false
			}
		case *ssa.Call:
			if !fr.ex.callKeepsReadOnly(r.Common(), a, 0) {
				return false
			}
		default:
			return false
		}
	}
	return stores == 1
}

func (ex *Exec) readOnlyAddr(v ssa.Value, depth int) bool {
	refs := v.Referrers()
	if refs == nil {
		return false
	}
	for _, r := range *refs {
		switch r := r.(type) {
		case *ssa.UnOp, *ssa.DebugRef:
		case *ssa.FieldAddr:
			if !ex.readOnlyAddr(r, depth) {
				return false
			}
		case *ssa.IndexAddr:
			if !ex.readOnlyAddr(r, depth) {
				return false
			}
		case *ssa.Call:
			if !ex.callKeepsReadOnly(r.Common(), v, depth) {
				return false
			}
		default:
			return false
		}
	}
	return true
}

func (ex *Exec) callKeepsReadOnly(c *ssa.CallCommon, v ssa.Value, depth int) bool {
	if c.IsInvoke() || depth > 6 {
		return false
	}
	fn := c.StaticCallee()
	if fn == nil {
		return false
	}
	for i, a := range c.Args {
		if a != v {
			continue
		}
		if i >= len(fn.Params) {
			return false
		}
		if !ex.paramReadOnly(fn, i, depth+1) {
			return false
		}
	}
	return true
}

func (ex *Exec) paramReadOnly(fn *ssa.Function, idx int, depth int) bool {
	if ex.eng.inModule(fn) {
		if fc := ex.calleeContract(fn); fc != nil && !fc.Inline {
			return !modifiesParam(fc, fn.Params[idx].Name())
		}
		if len(fn.Blocks) == 0 {
			return false
		}
		p := fn.Params[idx]
		// values carrying the pointer: the parameter and loads of its spill cell
		carriers := []ssa.Value{p}
		for _, r := range *p.Referrers() {
			if s, ok := r.(*ssa.Store); ok && s.Val == p {
				if a, ok := s.Addr.(*ssa.Alloc); ok && !a.Heap {
					for _, rr := range *a.Referrers() {
						switch rr := rr.(type) {
						case *ssa.UnOp:
							carriers = append(carriers, rr)
						case *ssa.Store:
							if rr != s {
								return false // parameter reassigned
							}
						case *ssa.DebugRef:
						default:
							return false
						}
					}
					continue
				}
				return false
			}
		}
		for _, cv := range carriers {
			for _, r := range *cv.Referrers() {
				switch r := r.(type) {
				case *ssa.Store:
					if r.Val == cv {
						if cv == p {
							continue // the spill store
						}
						return false
					}
					return false
				case *ssa.UnOp, *ssa.DebugRef, *ssa.BinOp:
				case *ssa.FieldAddr:
					if !ex.readOnlyAddr(r, depth) {
						return false
					}
				case *ssa.Call:
					if !ex.callKeepsReadOnly(r.Common(), cv, depth) {
						return false
					}
				default:
					return false
				}
			}
		}
		return true
	}
	if fo, ok := fn.Object().(*types.Func); ok {
		if fc := ex.externFor(fo.FullName()); fc != nil {
			return fc.Pure || (!fc.HavocAll && len(fc.Modifies) == 0)
		}
	}
	return false
}

func modifiesParam(fc *FuncContract, name string) bool {
	var root func(e Expr) string
	root = func(e Expr) string {
		switch e := e.(type) {
		case *EIdent:
			return e.Name
		case *EUnary:
			return root(e.X)
		case *EField:
			return root(e.X)
		case *EIndex:
			return root(e.X)
		}
		return ""
	}
	for _, m := range fc.Modifies {
		if m.E == nil {
			continue
		}
		// `*p` and `p.f` (f reached without a pointer hop) write the object p points to
		switch e := m.E.(type) {
		case *EUnary:
			if id, ok := e.X.(*EIdent); ok && id.Name == name {
				return true
			}
		case *EField:
			if id, ok := e.X.(*EIdent); ok && id.Name == name && !m.MapOf {
				return true
			}
		}
	}
	return false
}

// ---------------------------------------------------------------- global ghost variables

func ghostKey(name string) string { return "ghost:" + name }

func ghostOfKey(k string) (string, bool) {
	if strings.HasPrefix(k, "ghost:") {
		return k[len("ghost:"):], true
	}
	return "", false
}

func (e *Engine) isGhost(name string) bool {
	for _, g := range e.cs.Ghosts {
		if g == name {
			return true
		}
	}
	return false
}
