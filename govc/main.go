package main

import (
	"runtime"
	"runtime/debug"
	"runtime/pprof"
	"encoding/json"
	"flag"
	"fmt"
	"os"
	"path/filepath"
	"sort"
	"strconv"
	"strings"
	"time"

	"golang.org/x/tools/go/ssa"
)

type PlanUnit struct {
	Func   string `json:"func"`
	Aspect string `json:"aspect,omitempty"`
}

type PlanProp struct {
	Title     string     `json:"title"`
	Units     []PlanUnit `json:"units"`
	Lemmas    []string   `json:"lemmas"`
	Safety    bool       `json:"safety"`
	Residual  []string   `json:"residual"`
	Bounded   []string   `json:"bounded"`
	Notes     []string   `json:"notes"`
	FrameAll  string     `json:"frame_all,omitempty"` // "pkg.(*T)": generate read-only frame units for every exported method
}

type Plan map[string]*PlanProp

func (e *Engine) findFunc(name string) *ssa.Function {
	// name: pkgname.Func | pkgname.(*T).M | pkgname.(T).M
	i := strings.Index(name, ".")
	if i < 0 {
		return nil
	}
	pkgName, rest := name[:i], name[i+1:]
	for path, sp := range e.spkgs {
		if sp.Pkg.Name() != pkgName || !(path == e.modPath || strings.HasPrefix(path, e.modPath+"/")) {
			continue
		}
		if strings.HasPrefix(rest, "(") {
			j := strings.Index(rest, ")")
			recv := rest[1:j]
			m := strings.TrimPrefix(rest[j+1:], ".")
			if fn := e.lookupFunc(path, recv, m); fn != nil {
				return fn
			}
			continue
		}
		if fn := sp.Func(rest); fn != nil {
			return fn
		}
	}
	return nil
}

func main() {
	// the generation of verification conditions has a live heap of a few GB at its peak and little afterwards: without
	// a limit the collector lets garbage pile up to twice that peak
	debug.SetGCPercent(50)
	debug.SetMemoryLimit(5 << 30)
	if len(os.Args) < 2 {
		fatal("usage: govc check|dump|list ...")
	}
	switch os.Args[1] {
	case "check":
		cmdCheck(os.Args[2:])
	case "dump":
		cmdDump(os.Args[2:])
	default:
		fatal("unknown command %s", os.Args[1])
	}
}

func cmdDump(args []string) {
	fs := flag.NewFlagSet("dump", flag.ExitOnError)
	root := fs.String("root", "/repo", "module root")
	verif := fs.String("verif", "/verif", "verif dir")
	fs.Parse(args)
	preludes, _ := filepath.Glob(filepath.Join(*verif, "prelude", "*.spec"))
	sort.Strings(preludes)
	e, err := loadEngine(*root, preludes)
	if err != nil {
		fatal("%v", err)
	}
	for _, n := range fs.Args() {
		fn := e.findFunc(n)
		if fn == nil {
			fmt.Printf("not found: %s\n", n)
			continue
		}
		fn.WriteTo(os.Stdout)
		for _, a := range fn.AnonFuncs {
			a.WriteTo(os.Stdout)
		}
	}
}

type oblJSON struct {
	Name   string  `json:"name"`
	Kind   string  `json:"kind"`
	Desc   string  `json:"desc"`
	Pos    string  `json:"pos,omitempty"`
	Status string  `json:"status"`
	Solver string  `json:"solver,omitempty"`
	TimeS  float64 `json:"time_s"`
	Output string  `json:"output,omitempty"`
	Query  string  `json:"query,omitempty"`
}

func cmdCheck(args []string) {
	fs := flag.NewFlagSet("check", flag.ExitOnError)
	root := fs.String("root", "/repo", "module root")
	verif := fs.String("verif", "/verif", "verif dir")
	tier := fs.String("tier", "quick", "quick|thorough")
	seedF := fs.Int("seed", 0, "seed")
	only := fs.String("only", "", "verify only this unit (debug)")
	keep := fs.Bool("keep", false, "keep all query files")
	verbose := fs.Bool("v", false, "verbose")
	timeoutF := fs.Int("timeout", 0, "per-obligation timeout (s)")
	cpuprof := fs.String("cpuprofile", "", "write a CPU profile")
	failFast := fs.Bool("failfast", false, "must-fail corpus runs: skip the obligations not yet started once one is undischarged (requires -noevidence)")
	noEv := fs.Bool("noevidence", false, "do not write evidence or replay files (selftest against scratch copies)")
	fs.Parse(args)
	if fs.NArg() < 1 {
		fatal("usage: govc check [flags] <property-id>")
	}
	prop := fs.Arg(0)
	t0 := time.Now()
	if *cpuprof != "" {
		f, _ := os.Create(*cpuprof)
		pprof.StartCPUProfile(f)
		defer pprof.StopCPUProfile()
	}
	if s := os.Getenv("VERIF_SEED"); s != "" && *seedF == 0 {
		if n, err := strconv.Atoi(s); err == nil {
			*seedF = n
		}
	}
	planData, err := os.ReadFile(filepath.Join(*verif, "plan.json"))
	if err != nil {
		fatal("%v", err)
	}
	var plan Plan
	if err := json.Unmarshal(planData, &plan); err != nil {
		fatal("plan.json: %v", err)
	}
	pp := plan[prop]
	if pp == nil {
		fatal("property %s is not in plan.json", prop)
	}
	preludes, _ := filepath.Glob(filepath.Join(*verif, "prelude", "*.spec"))
	sort.Strings(preludes)
	e, err := loadEngine(*root, preludes)
	rep := &Report{Prop: prop, Tier: *tier, Seed: *seedF, Verif: *verif, Plan: pp, t0: t0, NoEvidence: *noEv}
	if err != nil {
		rep.fatalBuild(err)
		return
	}
	if *verbose {
		fmt.Printf("LOAD %.1fs\n", time.Since(t0).Seconds())
	}
	// the loaded program (SSA of the module and its dependencies) is a large, long-lived heap: collect rarely
	debug.SetGCPercent(1000)
	debug.SetMemoryLimit(12 << 30)
	axioms, err := e.axiomFacts()
	if err != nil {
		rep.fatalBuild(err)
		return
	}
	var units []*UnitResult
	for _, be := range e.bindErrs {
		units = append(units, &UnitResult{Func: be, Err: be, ErrKind: "contract", VC: e.newVC("bind")})
	}
	addFn := func(fn *ssa.Function, fc *FuncContract) {
		if *only != "" && !strings.Contains(fn.String()+"/"+fc.Aspect, *only) {
			return
		}
		tu := time.Now()
		units = append(units, e.verifyFunc(fn, fc, pp.Safety))
		if *verbose {
			fmt.Printf("GEN %.1fs %s/%s\n", time.Since(tu).Seconds(), fn.Name(), fc.Aspect)
		}
	}
	for _, u := range pp.Units {
		fn := e.findFunc(u.Func)
		if fn == nil {
			units = append(units, &UnitResult{Func: u.Func, Err: "function under contract not found: " + u.Func, ErrKind: "contract", VC: e.newVC("missing")})
			continue
		}
		found := false
		for _, fc := range e.contracts[fn] {
			if u.Aspect == "" || fc.Aspect == u.Aspect {
				found = true
				addFn(fn, fc)
			}
		}
		if !found {
			units = append(units, &UnitResult{Func: u.Func, Err: fmt.Sprintf("no contract (aspect %q) bound to %s", u.Aspect, u.Func), ErrKind: "contract", VC: e.newVC("missing")})
		}
	}
	if pp.FrameAll != "" {
		for _, fu := range e.frameUnits(pp.FrameAll) {
			if *only != "" && !strings.Contains(fu.fn.String(), *only) {
				continue
			}
			units = append(units, e.verifyFunc(fu.fn, fu.fc, pp.Safety))
		}
	}
	for _, ln := range pp.Lemmas {
		var ax *Axiom
		for _, a := range e.cs.Axioms {
			if a.Lemma && a.Name == ln {
				ax = a
			}
		}
		if ax == nil {
			units = append(units, &UnitResult{Func: "lemma " + ln, Err: "lemma not found: " + ln, ErrKind: "contract", VC: e.newVC("missing")})
			continue
		}
		if *only != "" && !strings.Contains("lemma:"+ln, *only) {
			continue
		}
		units = append(units, e.verifyLemma(ax))
	}
	var obls []*Obligation
	for _, u := range units {
		obls = append(obls, u.VC.obls...)
	}
	cfg := &SolverCfg{Names: []string{"z3-new", "z3", "cvc5"}, Timeout: 60 * time.Second, Seed: *seedF, WorkDir: filepath.Join(*verif, ".work", prop+workSuffix(*noEv)), Workers: 14, KeepQueries: *keep, Phase1: true, FailFast: *failFast && *noEv}
	if *tier == "thorough" {
		cfg.Timeout = 180 * time.Second
	}
	if *timeoutF > 0 {
		cfg.Timeout = time.Duration(*timeoutF) * time.Second
	}
	os.RemoveAll(cfg.WorkDir)
	if !*keep {
		rep.WorkDir = cfg.WorkDir
	}
	runtime.GC()
	e.solveAll(obls, axioms, cfg)
	if *tier == "thorough" {
		// stability: re-prove under other seeds; an obligation must stay discharged
		for _, sd := range []int{1, 2, 3, 4} {
			cfg2 := *cfg
			cfg2.Seed = *seedF + sd*7919
			cfg2.WorkDir = filepath.Join(*verif, ".work", prop+fmt.Sprintf("-seed%d", sd))
			os.RemoveAll(cfg2.WorkDir)
			var again []*Obligation
			for _, o := range obls {
				if o.Status == "unsat" && !o.Cover {
					c := *o
					again = append(again, &c)
				}
			}
			e.solveAll(again, axioms, &cfg2)
			for _, c := range again {
				rep.Reruns++
				if c.Status != "unsat" {
					rep.Unstable = append(rep.Unstable, fmt.Sprintf("%s: seed %d gives %s", c.Name, cfg2.Seed, c.Status))
				}
			}
			os.RemoveAll(cfg2.WorkDir)
		}
	}
	if *cpuprof != "" {
		pprof.StopCPUProfile()
	}
	rep.finish(e, units, obls, *verbose)
}

type frameUnit struct {
	fn *ssa.Function
	fc *FuncContract
}

func workSuffix(scratch bool) string {
	if scratch {
		return fmt.Sprintf("-scratch%d", os.Getpid())
	}
	return ""
}
