package main

import (
	"fmt"
	"go/token"
	"go/types"
	"strings"

	"golang.org/x/tools/go/ssa"
)


func (ex *Exec) pos(p token.Pos) string { return ex.eng.posOf(p) }

// safetyOb emits a no-panic obligation.
func (fr *Frame) safetyOb(st *State, kind, desc string, pos token.Pos, goal string) {
	ex := fr.ex
	if goal == "true" {
		return
	}
	if ex.safety {
		key := kind + "|" + st.pc + "|" + goal
		if !ex.nilChecked[key] {
			ex.nilChecked[key] = true
			k := kind
			if fr.fn != ex.top {
				k = kind + "@" + fr.fn.Name()
			}
			ex.vc.oblige(k, desc, ex.pos(pos), st.pc, goal)
		}
	}
	// after the check, execution continues only if it passed
	ex.vc.assume(st.pc, goal)
}

func (fr *Frame) exec(ins ssa.Instruction, st *State) {
	ex := fr.ex
	S := ex.eng.S
	vc := ex.vc
	switch ins := ins.(type) {
	case *ssa.DebugRef, *ssa.RunDefers:
		return
	case *ssa.Alloc:
		et := ins.Type().(*types.Pointer).Elem()
		if !ins.Heap {
			st.cells[ins] = Val{t: S.zero(et), typ: et}
			if _, isArr := et.Underlying().(*types.Array); isArr {
				v := st.cells[ins]
				v.isZeroArr = true
				st.cells[ins] = v
			}
			fr.env[ins] = Val{place: &Place{kind: pkCell, alloc: ins}, typ: ins.Type()}
			return
		}
		if fr.readOnlyCell(ins) {
			c := vc.fresh("ph_"+sanitize(ins.Comment), "Int")
			vc.assume("true", fmt.Sprintf("(>= %s %s)", c, st.next))
			vc.assume("true", fmt.Sprintf("(> %s 0)", c))
			st.next = vc.define("next", "Int", fmt.Sprintf("(+ %s 1)", c))
			fr.phantom[ins] = true
			fr.env[ins] = Val{place: &Place{kind: pkHeap, ref: c, root: et, phantom: true}, typ: ins.Type()}
			return
		}
		ref := vc.define("a_"+sanitize(ins.Comment), "Int", st.next)
		st.next = vc.define("next", "Int", fmt.Sprintf("(+ %s 1)", ref))
		key, sort := S.heapKeyPtr(et)
		vc.setHeap(st, key, sort, fmt.Sprintf("(store %s %s %s)", vc.heap(st, key, sort), ref, S.zero(et)))
		fr.env[ins] = Val{place: &Place{kind: pkHeap, ref: ref, root: et}, typ: ins.Type()}
	case *ssa.Store:
		p := fr.placeOf(ins.Addr)
		fr.nilCheckPlace(st, p, ins.Pos(), "store through nil pointer")
		v := fr.val(ins.Val)
		if p.kind == pkHeap && p.phantom && len(p.path) > 0 {
			unsup("store into a field of a read-only (phantom) cell")
		}
		ex.store(fr, st, p, v, ins.Pos())
	case *ssa.UnOp:
		switch ins.Op {
		case token.MUL:
			p := fr.placeOf(ins.X)
			fr.nilCheckPlace(st, p, ins.Pos(), "load through nil pointer")
			v := ex.load(st, p)
			if v.t != "" && v.place == nil && v.closure == nil && v.fn == nil {
				v.t = vc.define(regName(ins), S.sortOf(v.typ), v.t)
			}
			fr.env[ins] = v
		case token.NOT:
			fr.env[ins] = Val{t: not(fr.term(ins.X)), typ: ins.Type()}
		case token.SUB:
			fr.env[ins] = Val{t: "(- " + fr.term(ins.X) + ")", typ: ins.Type()}
		default:
			unsup("unary operator %s", ins.Op)
		}
	case *ssa.FieldAddr:
		p := fr.placeOf(ins.X)
		if p.kind == pkHeap && len(p.path) == 0 {
			fr.nilCheckPlace(st, p, ins.Pos(), fmt.Sprintf("field %s of nil pointer", fieldName(ins)))
		}
		fr.env[ins] = Val{place: p.extend(Sel{field: ins.Field}), typ: ins.Type()}
	case *ssa.Field:
		x := fr.val(ins.X)
		info := S.structInfoOf(x.typ)
		v := Val{t: fmt.Sprintf("(%s %s)", info.fields[ins.Field], x.t), typ: ins.Type()}
		ex.assumeAllocated(st, v)
		fr.env[ins] = v
	case *ssa.IndexAddr:
		x := fr.val(ins.X)
		idx := fr.term(ins.Index)
		switch u := ins.X.Type().Underlying().(type) {
		case *types.Slice:
			sn := S.sortOf(x.typ)
			fr.safetyOb(st, "index", "slice index in range", ins.Pos(), fmt.Sprintf("(and (<= 0 %s) (< %s (len_%s %s)))", idx, idx, sn, x.t))
			fr.env[ins] = Val{place: &Place{kind: pkSlice, slice: x, idx: idx}, typ: ins.Type()}
		case *types.Pointer: // *[N]T
			p := fr.placeOf(ins.X)
			arr := u.Elem().Underlying().(*types.Array)
			fr.safetyOb(st, "index", "array index in range", ins.Pos(), fmt.Sprintf("(and (<= 0 %s) (< %s %d))", idx, idx, arr.Len()))
			fr.env[ins] = Val{place: p.extend(Sel{field: -1, idx: idx}), typ: ins.Type()}
		default:
			unsup("IndexAddr on %v", ins.X.Type())
		}
	case *ssa.Index:
		x := fr.val(ins.X)
		idx := fr.term(ins.Index)
		switch u := ins.X.Type().Underlying().(type) {
		case *types.Basic: // string
			fr.safetyOb(st, "index", "string index in range", ins.Pos(), fmt.Sprintf("(and (<= 0 %s) (< %s (strlen %s)))", idx, idx, x.t))
			fr.env[ins] = Val{t: fmt.Sprintf("(strat %s %s)", x.t, idx), typ: ins.Type()}
		case *types.Array:
			fr.safetyOb(st, "index", "array index in range", ins.Pos(), fmt.Sprintf("(and (<= 0 %s) (< %s %d))", idx, idx, u.Len()))
			fr.env[ins] = Val{t: fmt.Sprintf("(select %s %s)", x.t, idx), typ: ins.Type()}
		default:
			unsup("Index on %v", ins.X.Type())
		}
	case *ssa.Lookup:
		x := fr.val(ins.X)
		k := fr.term(ins.Index)
		switch u := ins.X.Type().Underlying().(type) {
		case *types.Map:
			kk := fr.ifaceKey(u, ins.Index, k)
			val := Val{t: vc.define(regName(ins), S.sortOf(u.Elem()), vc.mapGet(st, u, x.t, kk)), typ: u.Elem()}
			ex.assumeAllocated(st, val)
			if ins.CommaOk {
				fr.env[ins] = Val{tuple: []Val{val, {t: vc.define("ok", "Bool", vc.inDom(st, u, x.t, kk)), typ: tBool}}}
			} else {
				fr.env[ins] = val
			}
		case *types.Basic:
			fr.safetyOb(st, "index", "string index in range", ins.Pos(), fmt.Sprintf("(and (<= 0 %s) (< %s (strlen %s)))", k, k, x.t))
			fr.env[ins] = Val{t: fmt.Sprintf("(strat %s %s)", x.t, k), typ: ins.Type()}
		default:
			unsup("Lookup on %v", ins.X.Type())
		}
	case *ssa.MapUpdate:
		m := fr.val(ins.Map)
		mt := ins.Map.Type().Underlying().(*types.Map)
		k := fr.ifaceKey(mt, ins.Key, fr.term(ins.Key))
		v := fr.term(ins.Value)
		fr.safetyOb(st, "nilmap", "assignment to entry in nil map", ins.Pos(), not(eq(m.t, "0")))
		ex.mapStore(fr, st, mt, m.t, k, v, ins.Pos())
	case *ssa.MakeMap:
		mt := ins.Type().Underlying().(*types.Map)
		ref := vc.define("mk", "Int", st.next)
		st.next = vc.define("next", "Int", fmt.Sprintf("(+ %s 1)", ref))
		dk, ds, _, _ := S.heapKeyMap(mt)
		ks := S.sortOf(mt.Key())
		vc.setHeap(st, dk, ds, fmt.Sprintf("(store %s %s ((as const (Array %s Bool)) false))", vc.heap(st, dk, ds), ref, ks))
		fr.env[ins] = Val{t: ref, typ: ins.Type()}
	case *ssa.MakeSlice:
		sn := S.sortOf(ins.Type())
		et := ins.Type().Underlying().(*types.Slice).Elem()
		ln := fr.term(ins.Len)
		fr.safetyOb(st, "makeslice", "makeslice: len out of range", ins.Pos(), fmt.Sprintf("(>= %s 0)", ln))
		fr.env[ins] = Val{t: vc.define(regName(ins), sn, vc.mkSlice(st, ins.Type(), S.constArr(et), ln, "false")), typ: ins.Type()}
	case *ssa.Slice:
		fr.execSlice(ins, st)
	case *ssa.BinOp:
		fr.execBinOp(ins, st)
	case *ssa.Call:
		fr.execCall(ins, st)
	case *ssa.MakeInterface:
		x := fr.val(ins.X)
		t, ok := ex.valTermOK(x)
		if !ok {
			if x.fn != nil || x.closure != nil {
				fr.env[ins] = Val{t: vc.fresh("fnval", "Iface"), typ: ins.Type()}
				return
			}
			unsup("MakeInterface of non-term")
		}
		fr.env[ins] = Val{t: S.box(ins.X.Type(), t), typ: ins.Type()}
	case *ssa.ChangeInterface:
		fr.env[ins] = Val{t: fr.term(ins.X), typ: ins.Type()}
	case *ssa.ChangeType:
		x := fr.val(ins.X)
		if x.place == nil && x.fn == nil && x.closure == nil && S.sortOf(ins.X.Type()) != S.sortOf(ins.Type()) {
			unsup("ChangeType between different representations %v -> %v", ins.X.Type(), ins.Type())
		}
		x.typ = ins.Type()
		fr.env[ins] = x
	case *ssa.Convert:
		fr.execConvert(ins, st)
	case *ssa.TypeAssert:
		x := fr.term(ins.X)
		var ok string
		var val Val
		if types.IsInterface(ins.AssertedType) {
			ok = vc.fresh("implements", "Bool")
			vc.assume(st.pc, implies(ok, not(eq(x, "iface_nil"))))
			val = Val{t: x, typ: ins.AssertedType}
		} else {
			ok = fmt.Sprintf("(= (typetag %s) %d)", x, S.tagOf(ins.AssertedType))
			val = Val{t: vc.define(regName(ins), S.sortOf(ins.AssertedType), ite(ok, S.unbox(ins.AssertedType, x), S.zero(ins.AssertedType))), typ: ins.AssertedType}
		}
		if ins.CommaOk {
			fr.env[ins] = Val{tuple: []Val{val, {t: vc.define("ok", "Bool", ok), typ: tBool}}}
		} else {
			fr.safetyOb(st, "typeassert", "type assertion holds", ins.Pos(), ok)
			ex.assumeAllocated(st, val)
			fr.env[ins] = val
		}
	case *ssa.Extract:
		t := fr.val(ins.Tuple)
		if ins.Index >= len(t.tuple) {
			unsup("extract %d of %d-tuple", ins.Index, len(t.tuple))
		}
		v := t.tuple[ins.Index]
		ex.assumeAllocated(st, v)
		fr.env[ins] = v
	case *ssa.Range:
		if _, ok := ins.X.Type().Underlying().(*types.Map); !ok {
			unsup("range over %v", ins.X.Type())
		}
		mt := ins.X.Type().Underlying().(*types.Map)
		m := fr.val(ins.X)
		ks := S.sortOf(mt.Key())
		entry := vc.define("rdom", "(Array "+ks+" Bool)", ite(eq(m.t, "0"), fmt.Sprintf("((as const (Array %s Bool)) false)", ks), vc.mapDom(st, mt, m.t)))
		fr.rangeSt[ins] = &rangeState{m: m, mt: mt, entryDom: entry}
		fr.env[ins] = Val{t: "0", typ: ins.Type()}
	case *ssa.Next:
		fr.execNext(ins, st)
	case *ssa.MakeClosure:
		var bs []Val
		for _, b := range ins.Bindings {
			bs = append(bs, fr.val(b))
		}
		cl := &Closure{fn: ins.Fn.(*ssa.Function), bindings: bs}
		fr.env[ins] = Val{closure: cl, typ: ins.Type(), t: ex.funcID(cl)}
	case *ssa.Defer, *ssa.Go, *ssa.Select, *ssa.Send, *ssa.MakeChan:
		unsup("%T is outside the supported subset", ins)
	default:
		unsup("instruction %T not supported", ins)
	}
}

func regName(v ssa.Value) string { return "r_" + v.Name() }

func fieldName(ins *ssa.FieldAddr) string {
	st := ins.X.Type().Underlying().(*types.Pointer).Elem().Underlying().(*types.Struct)
	return st.Field(ins.Field).Name()
}

// ifaceKey boxes map keys when the map key type is an interface (not expected in scope).
func (fr *Frame) ifaceKey(mt *types.Map, kv ssa.Value, k string) string {
	if types.IsInterface(mt.Key()) && !types.IsInterface(kv.Type()) {
		return fr.ex.eng.S.box(kv.Type(), k)
	}
	return k
}

func (fr *Frame) nilCheckPlace(st *State, p *Place, pos token.Pos, what string) {
	if p.kind != pkHeap {
		return
	}
	r := p.ref
	if strings.HasPrefix(r, "a_") || strings.HasPrefix(r, "ph_") || strings.HasPrefix(r, "(- ") || strings.HasPrefix(r, "mk!") {
		return
	}
	fr.safetyOb(st, "nilderef", what, pos, not(eq(r, "0")))
}

func (ex *Exec) mapStore(fr *Frame, st *State, mt *types.Map, m, k, v string, pos token.Pos) {
	S := ex.eng.S
	vc := ex.vc
	dk, ds, vk, vs := S.heapKeyMap(mt)
	ex.frameCheck(fr, st, modTarget{heapKey: dk, isMap: true, ref: m, mtype: mt}, pos)
	d := vc.heap(st, dk, ds)
	vc.setHeap(st, dk, ds, fmt.Sprintf("(store %s %s (store (select %s %s) %s true))", d, m, d, m, k))
	vv := vc.heap(st, vk, vs)
	vc.setHeap(st, vk, vs, fmt.Sprintf("(store %s %s (store (select %s %s) %s %s))", vv, m, vv, m, k, v))
}

func (ex *Exec) mapDelete(fr *Frame, st *State, mt *types.Map, m, k string, pos token.Pos) {
	S := ex.eng.S
	vc := ex.vc
	dk, ds, _, _ := S.heapKeyMap(mt)
	ex.frameCheck(fr, st, modTarget{heapKey: dk, isMap: true, ref: m, mtype: mt}, pos)
	d := vc.heap(st, dk, ds)
	// delete on a nil map is a no-op
	vc.setHeap(st, dk, ds, ite(eq(m, "0"), d, fmt.Sprintf("(store %s %s (store (select %s %s) %s false))", d, m, d, m, k)))
}

func (fr *Frame) execSlice(ins *ssa.Slice, st *State) {
	ex := fr.ex
	S := ex.eng.S
	vc := ex.vc
	var lo, hi string
	if ins.Low != nil {
		lo = fr.term(ins.Low)
	}
	if ins.High != nil {
		hi = fr.term(ins.High)
	}
	switch u := ins.X.Type().Underlying().(type) {
	case *types.Basic: // string
		x := fr.term(ins.X)
		l, h := "0", fmt.Sprintf("(strlen %s)", x)
		if lo != "" {
			l = lo
		}
		if hi != "" {
			h = hi
		}
		fr.safetyOb(st, "slicebounds", "string slice bounds in range", ins.Pos(), fmt.Sprintf("(and (<= 0 %s) (<= %s %s) (<= %s (strlen %s)))", l, l, h, h, x))
		fr.env[ins] = Val{t: vc.define(regName(ins), "Str", fmt.Sprintf("(substr %s %s %s)", x, l, h)), typ: ins.Type()}
	case *types.Pointer: // *[N]T -> slice
		p := fr.placeOf(ins.X)
		arr := u.Elem().Underlying().(*types.Array)
		if lo != "" && lo != "0" {
			unsup("slicing an array with a lower bound")
		}
		a := ex.load(st, p)
		sn := S.sortOf(ins.Type())
		av := vc.define("arr", S.sortOf(arr), a.t)
		if hi != "" {
			// make([]T, n, cap): a prefix of a fresh array
			fr.safetyOb(st, "slicebounds", "slice bounds in range", ins.Pos(), fmt.Sprintf("(and (<= 0 %s) (<= %s %d))", hi, hi, arr.Len()))
			fr.env[ins] = Val{t: vc.define(regName(ins), sn, vc.mkSlice(st, ins.Type(), av, hi, "false")), typ: ins.Type()}
			return
		}
		var elems []string
		for i := int64(0); i < arr.Len(); i++ {
			elems = append(elems, fmt.Sprintf("(select %s %d)", av, i))
		}
		fr.env[ins] = Val{t: vc.define(regName(ins), sn, vc.mkSlice(st, ins.Type(), av, fmt.Sprint(arr.Len()), "false")), typ: ins.Type(), elems: elems, elemsKnown: true}
	case *types.Slice:
		x := fr.val(ins.X)
		sn := S.sortOf(x.typ)
		l, h := "0", fmt.Sprintf("(len_%s %s)", sn, x.t)
		if lo != "" {
			l = lo
		}
		if hi != "" {
			h = hi
		}
		// bounds are checked against cap, which is not modelled: len is a sound under-approximation for the obligation
		fr.safetyOb(st, "slicebounds", "slice bounds in range", ins.Pos(), fmt.Sprintf("(and (<= 0 %s) (<= %s %s) (<= %s (len_%s %s)))", l, l, h, h, sn, x.t))
		var arr string
		xa := vc.sliceArr(st, x.typ, x.t)
		if l == "0" {
			arr = xa
		} else {
			es := S.sortOf(u.Elem())
			arr = vc.fresh("sub", "(Array Int "+es+")")
			vc.assume(st.pc, fmt.Sprintf("(forall ((i Int)) (! (=> (>= i 0) (= (select %s i) (select %s (+ i %s)))) :pattern ((select %s i))))", arr, xa, l, arr))
		}
		rv := Val{t: vc.define(regName(ins), sn, vc.mkSlice(st, ins.Type(), arr, fmt.Sprintf("(- %s %s)", h, l), fmt.Sprintf("(and (nil_%s %s) (= %s %s))", sn, x.t, h, l))), typ: ins.Type()}
		rv.backing = x.backing
		if hi != "" && ins.Max == nil {
			// a slice cut short keeps spare capacity inside the original: an append on it writes into the original
			root := x
			if x.resl != nil {
				root = *x.resl
			}
			rv.resl = &root
		}
		fr.env[ins] = rv
	default:
		unsup("Slice of %v", ins.X.Type())
	}
}

func (fr *Frame) execBinOp(ins *ssa.BinOp, st *State) {
	ex := fr.ex
	S := ex.eng.S
	xt := ins.X.Type()
	isStr := S.sortOf(xt) == "Str"
	var x, y string
	if ins.Op == token.EQL || ins.Op == token.NEQ {
		// comparisons may involve places (pointers) and nil constants
		xv, yv := fr.val(ins.X), fr.val(ins.Y)
		if _, isSlice := xt.Underlying().(*types.Slice); isSlice {
			// only comparison with nil is legal
			sn := S.sortOf(xt)
			other := xv
			if c, ok := ins.X.(*ssa.Const); ok && c.Value == nil {
				other = yv
			}
			t := fmt.Sprintf("(nil_%s %s)", sn, other.t)
			if ins.Op == token.NEQ {
				t = not(t)
			}
			fr.env[ins] = Val{t: t, typ: ins.Type()}
			return
		}
		if _, isSig := xt.Underlying().(*types.Signature); isSig {
			// func == nil
			isNil := func(v Val) string {
				if v.fn != nil || v.closure != nil {
					return "false"
				}
				return eq(v.t, "0")
			}
			other := xv
			if c, ok := ins.X.(*ssa.Const); ok && c.Value == nil {
				other = yv
			}
			t := isNil(other)
			if ins.Op == token.NEQ {
				t = not(t)
			}
			fr.env[ins] = Val{t: t, typ: ins.Type()}
			return
		}
		var ok1, ok2 bool
		x, ok1 = ex.valTermOK(xv)
		y, ok2 = ex.valTermOK(yv)
		if !ok1 || !ok2 {
			unsup("comparison of non-term values")
		}
		if types.IsInterface(xt) != types.IsInterface(ins.Y.Type()) {
			if types.IsInterface(xt) {
				y = S.box(ins.Y.Type(), y)
			} else {
				x = S.box(xt, x)
			}
		}
		t := eq(x, y)
		if ins.Op == token.NEQ {
			t = not(t)
		}
		fr.env[ins] = Val{t: t, typ: ins.Type()}
		return
	}
	x, y = fr.term(ins.X), fr.term(ins.Y)
	var t string
	switch ins.Op {
	case token.ADD:
		if isStr {
			t = fmt.Sprintf("(sconcat %s %s)", x, y)
		} else {
			t = fmt.Sprintf("(+ %s %s)", x, y)
		}
	case token.SUB:
		t = fmt.Sprintf("(- %s %s)", x, y)
	case token.MUL:
		t = fmt.Sprintf("(* %s %s)", x, y)
	case token.QUO:
		fr.safetyOb(st, "divzero", "division by zero", ins.Pos(), not(eq(y, "0")))
		t = fmt.Sprintf("(div %s %s)", x, y)
	case token.REM:
		fr.safetyOb(st, "divzero", "division by zero", ins.Pos(), not(eq(y, "0")))
		// Go's % truncates; for non-negative operands equals SMT mod
		t = fmt.Sprintf("(mod %s %s)", x, y)
	case token.LSS, token.GTR, token.LEQ, token.GEQ:
		if isStr {
			switch ins.Op {
			case token.LSS:
				t = fmt.Sprintf("(strlt %s %s)", x, y)
			case token.GTR:
				t = fmt.Sprintf("(strlt %s %s)", y, x)
			case token.LEQ:
				t = fmt.Sprintf("(not (strlt %s %s))", y, x)
			default:
				t = fmt.Sprintf("(not (strlt %s %s))", x, y)
			}
		} else {
			op := map[token.Token]string{token.LSS: "<", token.GTR: ">", token.LEQ: "<=", token.GEQ: ">="}[ins.Op]
			t = fmt.Sprintf("(%s %s %s)", op, x, y)
		}
	default:
		unsup("binary operator %s", ins.Op)
	}
	fr.env[ins] = Val{t: ex.vc.define(regName(ins), S.sortOf(ins.Type()), t), typ: ins.Type()}
}

func (fr *Frame) execConvert(ins *ssa.Convert, st *State) {
	ex := fr.ex
	S := ex.eng.S
	from, to := S.sortOf(ins.X.Type()), S.sortOf(ins.Type())
	x := fr.term(ins.X)
	if from == to {
		fr.env[ins] = Val{t: x, typ: ins.Type()}
		return
	}
	fn := "conv_" + sanitize(from) + "_to_" + sanitize(to)
	S.declareFun(fn, []string{from}, to)
	fr.env[ins] = Val{t: fmt.Sprintf("(%s %s)", fn, x), typ: ins.Type()}
}

func (fr *Frame) doPanic(ins *ssa.Panic, st *State) {
	ex := fr.ex
	if ex.contract != nil && ex.contract.MayPanic {
		if len(ex.contract.PanicsWhen) > 0 {
			// a panic is allowed only under the declared condition (evaluated on the entry state)
			tc := ex.contractCtx(ex.entry, ex.entry)
			var conds []string
			for _, c := range ex.contract.PanicsWhen {
				conds = append(conds, tc.trBool(c.E))
			}
			ex.vc.oblige("panic-allowed", "explicit panic only under the declared condition", ex.pos(ins.Pos()), st.pc, or(conds...))
		}
		st.dead = true
		return
	}
	if ex.safety {
		k := "panic"
		if fr.fn != ex.top {
			k = "panic@" + fr.fn.Name()
		}
		ex.vc.oblige(k, "explicit panic is unreachable", ex.pos(ins.Pos()), st.pc, "false")
	}
	st.dead = true
}

// ---------------------------------------------------------------- map range

func (fr *Frame) execNext(ins *ssa.Next, st *State) {
	ex := fr.ex
	S := ex.eng.S
	vc := ex.vc
	if ins.IsString {
		unsup("range over string")
	}
	rng, ok := ins.Iter.(*ssa.Range)
	if !ok {
		unsup("next on unknown iterator")
	}
	rs := fr.rangeSt[rng]
	if rs == nil {
		unsup("range state missing")
	}
	mt := rs.mt
	ks := S.sortOf(mt.Key())
	seenName := rs.seen
	seen, has := st.ghosts[seenName]
	if !has {
		unsup("map range outside a recognised loop")
	}
	okc := vc.fresh("ok", "Bool")
	k := vc.fresh("k", ks)
	m := rs.m.t
	// ok: k is a key currently present and not yet produced
	vc.assume(st.pc, implies(okc, and(vc.inDom(st, mt, m, k), not(fmt.Sprintf("(select %s %s)", seen.t, k)))))
	// !ok: every key of the entry domain that is still present has been produced
	vc.assume(st.pc, implies(not(okc), fmt.Sprintf("(forall ((x %s)) (! (=> (and (select %s x) %s) (select %s x)) :pattern ((select %s x))))",
		ks, rs.entryDom, vc.inDom(st, mt, m, "x"), seen.t, seen.t)))
	v := Val{t: vc.define("v", S.sortOf(mt.Elem()), fmt.Sprintf("(select %s %s)", vc.mapVals(st, mt, m), k)), typ: mt.Elem()}
	// ghost: the previous "seen" stays available as seen_before; seen is updated when a key is produced
	st.ghosts[seenName] = TVal{vc.define("seen", "(Array "+ks+" Bool)", ite(okc, fmt.Sprintf("(store %s %s true)", seen.t, k), seen.t)), seen.typ}
	st.ghosts["key"+strings.TrimPrefix(seenName, "seen")] = TVal{k, mt.Key()}
	fr.env[ins] = Val{tuple: []Val{{t: okc, typ: tBool}, {t: k, typ: mt.Key()}, v}}
}
