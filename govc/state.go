package main

import (
	"sort"
	"fmt"
	"go/types"
	"strings"

	"golang.org/x/tools/go/ssa"
)

// SetT is the (ghost) type of a set of Elem; sort (Array Elem Bool).
type SetT struct{ Elem types.Type }

func (s *SetT) Underlying() types.Type { return s }
func (s *SetT) String() string         { return "set[" + s.Elem.String() + "]" }

// TVal: a typed SMT term.
type TVal struct {
	t   string
	typ types.Type
}

// Val: value of an SSA register or cell in the symbolic executor.
type Val struct {
	t       string // SMT term (when not a place/tuple/closure)
	typ     types.Type
	place   *Place
	tuple   []Val
	closure *Closure
	fn      *ssa.Function // static function value
	origin  *Place        // for loaded slice values: where it was loaded from (write-back of element stores)
	backing *Place        // for slice values: the heap place whose slice header shares this backing array (provenance; survives assignment to locals and parameter passing)
	resl    *Val          // for s[a:b] with an explicit high bound: the slice it was cut from (append may overwrite its elements)
	isZeroArr bool
	elems      []string
	elemsKnown bool
}

type Closure struct {
	fn       *ssa.Function
	bindings []Val
}

const (
	pkCell  = iota // local (non-escaping) alloc: contents in State.cells
	pkHeap         // object in a typed heap: ref term
	pkSlice        // element of a slice value
)

type Sel struct {
	field int    // field index, or -1 for array index
	idx   string // array index term
}

type Place struct {
	kind    int
	alloc   *ssa.Alloc
	ref     string     // pkHeap: Int term
	root    types.Type // type of the root object
	slice   Val        // pkSlice: slice value (with origin)
	idx     string     // pkSlice: index
	path    []Sel
	phantom bool
}

func (p *Place) extend(s Sel) *Place {
	q := *p
	q.path = append(append([]Sel{}, p.path...), s)
	return &q
}

// State of symbolic execution at a program point.
type State struct {
	pc     string
	cells  map[*ssa.Alloc]Val
	heaps  map[string]string // heap key -> SMT name of current version
	next   string            // allocation counter term
	ghosts map[string]TVal
	record map[string]bool // when non-nil, heap reads are recorded (spec function analysis)
	param  bool            // heaps are named parameters hp_<key>
	dead   bool
	epoch    int
	epochTag int // identifies the initial heap names after a havoc-all
}

func (s *State) clone() *State {
	n := &State{pc: s.pc, next: s.next, epoch: s.epoch, epochTag: s.epochTag, cells: make(map[*ssa.Alloc]Val, len(s.cells)), heaps: make(map[string]string, len(s.heaps)), ghosts: make(map[string]TVal, len(s.ghosts)), record: s.record, param: s.param}
	for k, v := range s.cells {
		n.cells[k] = v
	}
	for k, v := range s.heaps {
		n.heaps[k] = v
	}
	for k, v := range s.ghosts {
		n.ghosts[k] = v
	}
	return n
}

// VC: one verification unit (a function under one contract aspect, or a lemma).
type VC struct {
	eng     *Engine
	name    string
	items   []string // ordered definitions and facts
	n       int
	obls    []*Obligation
	notes   []string
	counter map[string]int
	heapSorts map[string]string
	factSeen  map[string]bool
	unsupported []string
	droppedStores int
	epochs int
	eqHeaps bool
	named   map[string]string
}

type Obligation struct {
	Name    string
	Kind    string
	Func    string
	Aspect  string
	Desc    string
	Pos     string
	upto    int    // number of vc.items visible
	pc      string
	goal    string
	vc      *VC
	Props   []string
	// results
	Status  string // unsat (discharged), sat, unknown, timeout
	Solver  string
	TimeS   float64
	Output  string
	QueryFile string
	Cover   bool // vacuity probe: expected NOT to be provable
	axLimit int  // lemmas with index >= axLimit are not assumed (0 = all)
}

func (vc *VC) fresh(prefix, sort string) string {
	vc.n++
	n := fmt.Sprintf("%s!%d", prefix, vc.n)
	vc.items = append(vc.items, fmt.Sprintf("(declare-const %s %s)", n, sort))
	return n
}

func (vc *VC) define(prefix, sort, term string) string {
	// avoid aliasing chains for atoms
	if !strings.ContainsAny(term, " (") {
		return term
	}
	if prefix == "e" {
		// closed contract subterms: one name per distinct term
		if vc.named == nil {
			vc.named = map[string]string{}
		}
		if n, ok := vc.named[term]; ok {
			return n
		}
		vc.n++
		n := fmt.Sprintf("%s!%d", prefix, vc.n)
		vc.named[term] = n
		vc.items = append(vc.items, fmt.Sprintf("(define-fun %s () %s %s)", n, sort, term))
		return n
	}
	vc.n++
	n := fmt.Sprintf("%s!%d", prefix, vc.n)
	if strings.HasPrefix(sort, "(Array") && vc.eqHeaps {
		// heap versions are named constants (not macros) so that quantifier triggers see `select h r`
		vc.items = append(vc.items, fmt.Sprintf("(declare-const %s %s)", n, sort), fmt.Sprintf("(assert (= %s %s))", n, term))
		return n
	}
	vc.items = append(vc.items, fmt.Sprintf("(define-fun %s () %s %s)", n, sort, term))
	return n
}

func (vc *VC) assume(pc, fact string) {
	if fact == "true" {
		return
	}
	key := pc + "\x00" + fact
	if vc.factSeen[key] {
		return
	}
	vc.factSeen[key] = true
	if pc == "true" || pc == "" {
		vc.items = append(vc.items, "(assert "+fact+")")
	} else {
		vc.items = append(vc.items, "(assert (=> "+pc+" "+fact+"))")
	}
}

func (vc *VC) note(f string, a ...interface{}) {
	s := fmt.Sprintf(f, a...)
	for _, n := range vc.notes {
		if n == s {
			return
		}
	}
	vc.notes = append(vc.notes, s)
}

func (vc *VC) oblige(kind, desc, pos, pc, goal string) *Obligation {
	vc.counter[kind]++
	parts := []string{goal}
	if goal != "false" {
		parts = splitGoal(goal, 0)
	}
	var first *Obligation
	for i, g := range parts {
		name := fmt.Sprintf("%s/%s#%d", vc.name, kind, vc.counter[kind])
		d := desc
		if len(parts) > 1 {
			name = fmt.Sprintf("%s.%d", name, i+1)
			d = fmt.Sprintf("%s [conjunct %d/%d]", desc, i+1, len(parts))
		}
		o := &Obligation{Name: name, Kind: kind, Desc: d, Pos: pos, upto: len(vc.items), pc: pc, goal: g, vc: vc}
		vc.obls = append(vc.obls, o)
		if first == nil {
			first = o
		}
	}
	return first
}

// heap returns the current SMT name of a heap, creating the initial version on demand.
func (vc *VC) heap(st *State, key, sort string) string {
	if st.record != nil {
		st.record[key] = true
	}
	vc.heapSorts[key] = sort
	if st.param {
		return "hp_" + key
	}
	if h, ok := st.heaps[key]; ok {
		return h
	}
	// initial heap version: shared by all states that never wrote it
	n := fmt.Sprintf("h%d_%s", st.epochTag, key)
	if !vc.factSeen["decl:"+n] {
		vc.factSeen["decl:"+n] = true
		vc.items = append(vc.items, fmt.Sprintf("(declare-const %s %s)", n, sort))
	}
	return n
}

func (vc *VC) setHeap(st *State, key, sort, term string) {
	vc.heapSorts[key] = sort
	st.heaps[key] = vc.define("h_"+key, sort, term)
}

func and(xs ...string) string {
	var ys []string
	for _, x := range xs {
		if x == "true" || x == "" {
			continue
		}
		if x == "false" {
			return "false"
		}
		ys = append(ys, x)
	}
	switch len(ys) {
	case 0:
		return "true"
	case 1:
		return ys[0]
	}
	return "(and " + strings.Join(ys, " ") + ")"
}

func or(xs ...string) string {
	var ys []string
	for _, x := range xs {
		if x == "false" || x == "" {
			continue
		}
		if x == "true" {
			return "true"
		}
		ys = append(ys, x)
	}
	switch len(ys) {
	case 0:
		return "false"
	case 1:
		return ys[0]
	}
	return "(or " + strings.Join(ys, " ") + ")"
}

func not(x string) string {
	switch x {
	case "true":
		return "false"
	case "false":
		return "true"
	}
	if strings.HasPrefix(x, "(not ") && strings.HasSuffix(x, ")") {
		inner := x[5 : len(x)-1]
		if balanced(inner) {
			return inner
		}
	}
	return "(not " + x + ")"
}

func balanced(s string) bool {
	d := 0
	for i, c := range s {
		if c == '(' {
			d++
		}
		if c == ')' {
			d--
			if d == 0 && i != len(s)-1 {
				return false
			}
		}
		if d < 0 {
			return false
		}
	}
	if d != 0 {
		return false
	}
	if !strings.HasPrefix(s, "(") {
		return !strings.Contains(s, " ")
	}
	return true
}

func implies(a, b string) string {
	if a == "true" {
		return b
	}
	if b == "true" {
		return "true"
	}
	return "(=> " + a + " " + b + ")"
}

func ite(c, a, b string) string {
	if a == b {
		return a
	}
	if c == "true" {
		return a
	}
	if c == "false" {
		return b
	}
	return "(ite " + c + " " + a + " " + b + ")"
}

func eq(a, b string) string {
	if a == b {
		return "true"
	}
	return "(= " + a + " " + b + ")"
}

// sortedAllocs: deterministic iteration order over sets of local cells (source position, then name)
func sortedAllocs[T any](m map[*ssa.Alloc]T) []*ssa.Alloc {
	out := make([]*ssa.Alloc, 0, len(m))
	for a := range m {
		out = append(out, a)
	}
	sort.Slice(out, func(i, j int) bool {
		if out[i].Pos() != out[j].Pos() {
			return out[i].Pos() < out[j].Pos()
		}
		if out[i].Comment != out[j].Comment {
			return out[i].Comment < out[j].Comment
		}
		return out[i].Name() < out[j].Name()
	})
	return out
}
